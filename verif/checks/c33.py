"""C33 install helpers create exactly the image entries PMS prescribes.

Tier "fast": every helper class of pkgcore.ebuild.ebd_ipc is driven through IpcCommand.__call__ with a scripted
daemon peer (the five request lines exactly as __ebd_ipc_cmd writes them, options spelled as the helper scripts under
data/lib/pkgcore/ebd/helpers spell them) and a fake build op whose ED is an empty tmpfs directory; the resulting image
is compared with a placement table transcribed from PMS 12.3 ("ebuild-specific commands / installation commands").
Tier "sym": get_relative_dosym_target over all (source, link) pairs of a path universe.
Tier "e2e": the real helper scripts invoked from a scripted src_install on the real bash daemon (see _e2e_* below).
"""

import itertools
import os
import shutil
import stat

PROPERTY = "C33"
LEVEL = "exploration"
ENGINE = "enum"
TECHNIQUE = (
    "exhaustive enumeration of helper invocations (helper x EAPI x destination state x option state x argument list over a "
    "fixed source tree) executed on a tmpfs image directory through the real ebd_ipc helper classes, compared with a "
    "PMS 12.3 placement table; exhaustive (source, link) pairs for relative dosym; real helper scripts on the real bash daemon"
)
RULE = (
    "fast: each invocation gets an empty ED, the request is fed line by line (nonfatal, cwd, phase, options, NUL-joined args) "
    "to IpcCommand.__call__, afterwards ED is walked with lstat: the set of non-directory entries must equal the table's "
    "(kind, mode, content/target), explicitly created directories must exist with the requested mode, no other directory "
    "than ancestors may appear; invocations PMS forbids must end in IpcCommandError. sym: for every pair the returned text "
    "joined to the link's directory must normalise to the source. e2e: same table, entries produced by the real scripts. "
    "A class is (tier, helper, EAPI group, outcome kind); distinct_nontrivial counts classes observed."
)
ASSUMPTIONS = [
    "fast tier: destination variables (into/insinto/exeinto/docinto, *opts) are turned into --dest/--insoptions/--diroptions by the check the way the helper scripts do; that bash-side mapping itself is only exercised by the e2e tier",
    "Excl: options other than -m/-o/-g/-p in insopts/diropts/exeopts (external `install` fallback) belong to C32",
    "Excl: doins/doexe/dobin/... given a directory without -r (PMS does not say whether it is skipped or fatal); only dodoc and dohtml are required to reject it",
    "Excl: symlinks as doins/dodoc arguments in EAPI 0-3 (PMS: undefined before doins-symlink); compressed man pages (foo.1.gz) and multi-character sections (foo.3pm: man3 vs man3pm); man page names with a language code AND -i18n in EAPI 2-3",
    "Excl: modes of implicitly created ancestor directories",
    "fast tier also judges owner and timestamps of files installed by doins/doexe and of directories made by dodir/keepdir/doins -r against the option string of that request alone: uid/gid = the -o/-g given, else the process's; mtime equals the source's iff -p (sources carry a fixed 2001 mtime); an option string without -m leaves install(1)'s default mode 0755; foreign ids (1:1) are only enumerated when running as root",
    "request histories have depth 2 through one helper object (as ebd._ipc_helpers keeps them for a whole build operation); what the first request left in the image is the pre-state of the judged second request",
    "pre-existing destination entries (dangling symlink with/without target directory, live symlink, regular file) use relative link targets so that nothing can be written outside the scratch image",
    "Excl: helpers banned per EAPI (dohard 4+, dohtml/dolib 7+) are banned on the bash side and only checked by the e2e tier",
    "umask 022 during every invocation",
]
BOUNDS = {
    "quick": "fast: 16 helpers x EAPI {0,2,3,4,6,7,8} x up to 3 destinations x up to 3 option strings x 4-12 argument lists, plus {-m4755,-m2755,-m6755} x {-o uid,-g gid} in insopts/exeopts/diropts, 4 pre-existing destination states (dangling link with/without target dir, live link, regular file) for doins/doexe/dobin, and depth-2 request histories through one helper object whose second option string drops the mode / -p / -o / -g of the first (2770 invocations); sym: all 25 x 23 (source, link) pairs incl. un-normalised spellings; e2e: 18 real-daemon src_install sessions (every helper once; 5/4/9 sessions for EAPI 0/4/8, one per band, covering each band's rules)",
    "thorough": "fast: EAPI 0-8, destinations {default,/,/usr,/opt/x,/opt/x/,dir with space} x all option strings x all argument lists, same special-bit/owner options, destination states and request histories (6915 invocations); sym: 131 x 76 pairs; e2e: 504 real-daemon sessions (56 per EAPI 0-8)",
}

TIME_CAP = {"thorough": 840}

PF = "vpkg-1.0"
PN = "vpkg"
CATEGORY = "vcat"
SLOT = "0"


# ------------------------------------------------------------------ the source tree (relative to the phase's cwd)
SRC_MTIME_NS = 1_000_000_000 * 10**9 + 123_456_789  # every regular source file: 2001-09-09, with a sub-second part


def build_source_tree(top):
    """Create the fixed work directory. Returns its path."""
    w = os.path.join(top, "work")
    os.makedirs(w)

    def wf(rel, text, mode=0o644):
        p = os.path.join(w, rel)
        os.makedirs(os.path.dirname(p), exist_ok=True)
        with open(p, "w") as f:
            f.write(text)
        os.chmod(p, mode)
        os.utime(p, ns=(SRC_MTIME_NS, SRC_MTIME_NS))

    wf("f.txt", "f\n", 0o600)
    wf("x.sh", "#!/bin/sh\n", 0o755)
    wf("sp ace.txt", "space\n")
    wf("p/n.txt", "n\n")
    wf("p/sub/deep.txt", "deep\n", 0o640)
    wf("d/n.txt", "dn\n")
    wf("d/sub/deep.txt", "ddeep\n")
    os.symlink("n.txt", os.path.join(w, "d/lnk"))
    os.symlink("sub", os.path.join(w, "d/dl"))
    os.symlink("f.txt", os.path.join(w, "l.txt"))
    wf("g/ok.txt", "ok\n")
    os.symlink("/nonexistent-c33/target", os.path.join(w, "g/dangling"))
    for n in ("foo.1", "foo.de.1", "foo.pt_BR.1", "bar.3", "baz.n", "nosect"):
        wf("man/" + n, n + "\n")
    wf("po/de.mo", "de\n")
    wf("po/en_GB.mo", "engb\n")
    wf("h/i.html", "<html>\n")
    wf("h/i.css", "css\n")
    wf("h/i.txt", "txt\n")
    wf("h/hd/in.html", "<in>\n")
    wf("h/hd/in.exe", "exe\n")
    wf("lib/libv.so", "so\n")
    wf("lib/libv.a", "a\n")
    wf("v.info", "info\n")
    return w


def _src_kind(w, rel):
    p = os.path.join(w, rel)
    st = os.lstat(p)
    if stat.S_ISLNK(st.st_mode):
        return "sym"
    if stat.S_ISDIR(st.st_mode):
        return "dir"
    return "file"


def _walk_tree(w, rel):
    """plain python recursive listing of a source directory: [(relpath-under-rel-parent, kind)]"""
    out = []
    base = os.path.basename(rel.rstrip("/"))

    def rec(src, dst):
        out.append((dst, "dir", src))
        for name in sorted(os.listdir(os.path.join(w, src))):
            s = src + "/" + name
            k = _src_kind(w, s)
            if k == "dir":
                rec(s, dst + "/" + name)
            else:
                out.append((dst + "/" + name, k, s))

    rec(rel.rstrip("/"), base)
    return out


# ------------------------------------------------------------------ PMS reference table
def _mode_of(opts, default):
    """Mode requested by an option string made of -mMODE / -m MODE tokens (the only ones in the alphabet)."""
    toks = opts.split()
    mode = default
    i = 0
    while i < len(toks):
        t = toks[i]
        if t == "-m":
            mode = int(toks[i + 1], 8)
            i += 2
            continue
        if t.startswith("-m"):
            mode = int(t[2:], 8)
        i += 1
    return mode


def _attrs_of(opts):
    """(uid|None, gid|None, preserve-timestamps) requested by an install(1) option string (-o/-g/-p in the alphabet)."""
    toks = opts.split()
    uid = gid = None
    pres = False
    i = 0
    while i < len(toks):
        t = toks[i]
        if t in ("-o", "-g"):
            if t == "-o":
                uid = int(toks[i + 1])
            else:
                gid = int(toks[i + 1])
            i += 2
            continue
        if t.startswith("-o"):
            uid = int(t[2:])
        elif t.startswith("-g"):
            gid = int(t[2:])
        elif t == "-p":
            pres = True
        i += 1
    return {"uid": uid, "gid": gid, "p": pres}


def _j(*parts):
    return "/" + "/".join(c for part in parts for c in part.split("/") if c)


def _lang_split(name):
    """PMS: foo.<lang>.<sec> with lang = two lower-case letters, optionally '_' and two upper-case letters."""
    comps = name.split(".")
    if len(comps) >= 3:
        lang = comps[-2]
        ok = len(lang) in (2, 5) and lang[:2].isalpha() and lang[:2].islower() and lang[:2].isascii()
        if ok and len(lang) == 5:
            ok = lang[2] == "_" and lang[3:].isalpha() and lang[3:].isupper() and lang[3:].isascii()
        if ok:
            return ".".join(comps[:-2]), lang, comps[-1]
    return None


def expected(inv, w):
    """-> ("ok", files, dirs) | ("reject",) | None (excluded).
    files: {path: ("file", mode|None, source-rel) | ("sym", target) | ("keep",) | ("hard", path)}
    dirs: {path: mode|None} explicitly created directories."""
    h = inv["helper"]
    eapi = inv["eapi"]
    st = inv["state"]
    args = inv["args"]
    recursive = "-r" in inv.get("flags", ())
    files, dirs = {}, {}
    fattrs = dattrs = None  # owner / timestamp requests of the option strings (doins, doexe, dodir, keepdir)
    if inv.get("tier") == "e2e" and ((h == "dohard" and eapi >= 4) or (h in ("dohtml", "dolib") and eapi >= 7)):
        return ("reject",)  # banned helpers (enforced by the helper scripts)

    def put_file(dst, src, mode):
        k = _src_kind(w, src)
        if k == "sym":
            if eapi < 4 or h != "doins":
                raise _Excluded()  # only doins, from EAPI 4, has defined symlink behaviour
            files[dst] = ("sym", os.readlink(os.path.join(w, src)))
        else:
            files[dst] = ("file", mode, src, fattrs)

    def put_tree(dest, src, fmode, dmode):
        for rel, kind, s in _walk_tree(w, src):
            if kind == "dir":
                dirs[_j(dest, rel)] = dmode
            else:
                put_file(_j(dest, rel), s, fmode)

    try:
        if h in ("dobin", "dosbin"):
            dest = _j(st.get("into", "/usr"), "bin" if h == "dobin" else "sbin")
            for a in args:
                if _src_kind(w, a) == "dir":
                    return None
                put_file(_j(dest, os.path.basename(a)), a, 0o755)
        elif h in ("dolib.so", "dolib.a", "dolib"):
            dest = _j(st.get("into", "/usr"), "lib")
            mode = {"dolib.so": 0o755, "dolib.a": 0o644, "dolib": 0o644}[h]  # dolib: libopts default -m0644
            for a in args:
                put_file(_j(dest, os.path.basename(a)), a, mode)
        elif h in ("doins", "doexe"):
            # an explicitly set option string without -m leaves install(1)'s own default, 0755
            if h == "doins":
                dest, fmode = st.get("insinto", "/"), _mode_of(st.get("insopts", "-m0644"), 0o755)
                fattrs = _attrs_of(st.get("insopts", "-m0644"))
            else:
                dest, fmode = st.get("exeinto", "/"), _mode_of(st.get("exeopts", "-m0755"), 0o755)
                fattrs = _attrs_of(st.get("exeopts", "-m0755"))
            dmode = _mode_of(st.get("diropts", "-m0755"), 0o755)
            dattrs = _attrs_of(st.get("diropts", "-m0755"))
            for a in args:
                if _src_kind(w, a) == "dir":
                    if not (recursive and h == "doins"):
                        return None
                    put_tree(dest, a, fmode, dmode)
                else:
                    put_file(_j(dest, os.path.basename(a)), a, fmode)
        elif h == "dodoc":
            dest = _j("/usr/share/doc", PF, st.get("docinto", ""))
            for a in args:
                if _src_kind(w, a) == "dir":
                    if recursive and eapi >= 4:
                        put_tree(dest, a, 0o644, None)
                    else:
                        return ("reject",)
                else:
                    put_file(_j(dest, os.path.basename(a)), a, 0o644)
        elif h == "doinfo":
            for a in args:
                put_file(_j("/usr/share/info", os.path.basename(a)), a, 0o644)
        elif h == "doman":
            i18n = inv.get("i18n")
            for a in args:
                name = os.path.basename(a)
                if "." not in name:
                    return ("reject",)
                sec = name.rsplit(".", 1)[1]
                lang = None
                ls = _lang_split(name) if eapi >= 2 else None
                if i18n:
                    if ls and eapi < 4:
                        return None  # both given, precedence only defined from EAPI 4
                    lang = i18n
                elif ls:
                    name = f"{ls[0]}.{ls[2]}"
                    lang = ls[1]
                put_file(_j("/usr/share/man", lang or "", "man" + sec, name), a, 0o644)
        elif h == "domo":
            dest = _j(st.get("into", "/usr"), "share/locale")
            for a in args:
                base = os.path.basename(a).rsplit(".", 1)[0]
                put_file(_j(dest, base, "LC_MESSAGES", PN + ".mo"), a, 0o644)
        elif h == "dohtml":
            dest = _j("/usr/share/doc", PF, st.get("docinto", "") or "html")
            allowed = {"css", "gif", "htm", "html", "jpeg", "jpg", "js", "png"}

            def ok(name):
                return "." in name and name.rsplit(".", 1)[1] in allowed

            for a in args:
                if _src_kind(w, a) == "dir":
                    if not recursive:
                        return ("reject",)
                    for rel, kind, s in _walk_tree(w, a):
                        if kind == "file" and ok(os.path.basename(rel)):
                            put_file(_j(dest, rel), s, 0o644)
                elif ok(os.path.basename(a)):
                    put_file(_j(dest, os.path.basename(a)), a, 0o644)
        elif h == "dodir":
            dattrs = _attrs_of(st.get("diropts", "-m0755"))
            for a in args:
                dirs[_j(a)] = _mode_of(st.get("diropts", "-m0755"), 0o755)
        elif h == "keepdir":
            dattrs = _attrs_of(st.get("diropts", "-m0755"))
            for a in args:
                dirs[_j(a)] = _mode_of(st.get("diropts", "-m0755"), 0o755)
                files[_j(a, ".keep*")] = ("keep",)
        elif h == "dosym":
            src, link = args
            if link.endswith("/"):
                return ("reject",)
            if _j(link) in inv.get("pre_dirs", ()):
                return ("reject",)
            if "-r" in inv.get("flags", ()):
                if eapi < 8:
                    return ("reject",)
                if not src.startswith("/"):
                    return None  # PMS only defines -r for an absolute first parameter
                files[_j(link)] = ("symrel", src)
            else:
                files[_j(link)] = ("sym", src)
        elif h == "dohard":
            src, link = args
            files[_j(src)] = ("any",)
            files[_j(link)] = ("hard", _j(src))
        else:
            raise AssertionError(h)
    except _Excluded:
        return None
    for p, text in inv.get("pre_files", {}).items():
        files.setdefault(p, ("pre", text))  # untouched unless it is a destination of the request
    for p, target in inv.get("pre_links", {}).items():
        files.setdefault(p, ("sym", target))
    return ("ok", files, dirs, dattrs)


class _Excluded(Exception):
    pass


# ------------------------------------------------------------------ request spelling (as the helper scripts do)
def wire_options(inv):
    h = inv["helper"]
    st = inv["state"]
    into = st.get("into", "/usr")
    q = lambda s: '"' + s + '"'  # noqa: E731
    if h == "dobin":
        return [f"--dest={q(into + '/bin')}"]
    if h == "dosbin":
        return [f"--dest={q(into + '/sbin')}"]
    if h in ("dolib", "dolib.so", "dolib.a"):
        lo = {"dolib.so": "-m0755", "dolib.a": "-m0644", "dolib": "-m0644"}[h]
        return [f"--dest={q(into + '/lib')}", f"--insoptions={q(lo)}"]
    if h == "doins":
        return [f"--dest={q(st.get('insinto', '/'))}", f"--insoptions={q(st.get('insopts', '-m0644'))}", f"--diroptions={q(st.get('diropts', '-m0755'))}"]
    if h == "doexe":
        return [f"--dest={q(st.get('exeinto', '/'))}", f"--insoptions={q(st.get('exeopts', '-m0755'))}"]
    if h == "dodoc":
        return [f"--dest={q('/usr/share/doc/' + PF + '/' + st.get('docinto', ''))}"]
    if h == "dohtml":
        return [f"--dest={q('/usr/share/doc/' + PF + '/' + (st.get('docinto', '') or 'html'))}"]
    if h == "doinfo":
        return ["--dest=/usr/share/info"]
    if h == "doman":
        return ["--dest=/usr/share/man"]
    if h == "domo":
        return [f"--dest={q(into + '/share/locale')}"]
    if h in ("dodir", "keepdir"):
        return [f"--diroptions={q(st.get('diropts', '-m0755'))}"]
    return []


def dest_dir(inv):
    """The helper's destination directory (may be created even when nothing ends up in it)."""
    h, st = inv["helper"], inv["state"]
    into = st.get("into", "/usr")
    return {
        "dobin": _j(into, "bin"), "dosbin": _j(into, "sbin"), "dolib": _j(into, "lib"), "dolib.so": _j(into, "lib"),
        "dolib.a": _j(into, "lib"), "doins": _j(st.get("insinto", "/")), "doexe": _j(st.get("exeinto", "/")),
        "dodoc": _j("/usr/share/doc", PF, st.get("docinto", "")), "dohtml": _j("/usr/share/doc", PF, st.get("docinto", "") or "html"),
        "doinfo": "/usr/share/info", "doman": "/usr/share/man", "domo": _j(into, "share/locale"),
    }.get(h)  # fmt: skip


def wire_args(inv):
    a = list(inv.get("flags", ()))
    if inv.get("i18n"):
        a.append("-i18n=" + inv["i18n"])
    return a + list(inv["args"])


HELPER_CLASS = {
    "dobin": "Dobin",
    "dosbin": "Dosbin",
    "dolib": "Dolib",
    "dolib.so": "Dolib_so",
    "dolib.a": "Dolib_a",
    "doins": "Doins",
    "doexe": "Doexe",
    "dodoc": "Dodoc",
    "dohtml": "Dohtml",
    "doinfo": "Doinfo",
    "doman": "Doman",
    "domo": "Domo",
    "dodir": "Dodir",
    "keepdir": "Keepdir",
    "dosym": "Dosym",
    "dohard": "Dohard",
}


class _Peer:
    """Scripted daemon side of one IPC request."""

    def __init__(self, lines):
        self.lines = list(lines)
        self.written = []

    def read(self):
        return self.lines.pop(0) + "\n"

    def write(self, data):
        self.written.append(data)


class _Obs:
    def __init__(self):
        self.msgs = []

    def warn(self, msg, *a, **k):
        self.msgs.append(str(msg))

    info = error = write = warn

    def flush(self):
        pass


class _FakePkg:
    category = CATEGORY
    PN = PN
    PF = PF
    slot = SLOT
    restrict = ()

    def __init__(self, eapi):
        self.eapi = eapi


class _FakeOp:
    userpriv = False

    def __init__(self, eapi, ED):
        self.pkg = _FakePkg(eapi)
        self.observer = _Obs()
        self.ED = ED
        self.env = {"ED": ED, "D": ED, "T": ED}
        self.domain = None


def snapshot_attrs(ED):
    """path -> (uid, gid, mtime_ns) of every entry of the image (lstat)."""
    out = {}
    for dp, dns, fns in os.walk(ED):
        rel = dp[len(ED) :] or "/"
        for n in list(dns) + fns:
            st_ = os.lstat(os.path.join(dp, n))
            out[_j(rel, n)] = (st_.st_uid, st_.st_gid, st_.st_mtime_ns)
    return out


def snapshot(ED):
    files, dirs = {}, {}
    for dp, dns, fns in os.walk(ED):
        rel = dp[len(ED) :] or "/"
        for dn in list(dns):
            p = os.path.join(dp, dn)
            if os.path.islink(p):
                files[_j(rel, dn)] = ("sym", os.readlink(p))
            else:
                dirs[_j(rel, dn)] = stat.S_IMODE(os.lstat(p).st_mode)
        for fn in fns:
            p = os.path.join(dp, fn)
            st_ = os.lstat(p)
            if stat.S_ISLNK(st_.st_mode):
                files[_j(rel, fn)] = ("sym", os.readlink(p))
            else:
                with open(p, "rb") as f:
                    data = f.read()
                files[_j(rel, fn)] = ("file", stat.S_IMODE(st_.st_mode), data.decode(errors="replace"), st_.st_ino)
    return files, dirs


def run_fast(inv, w, ED):
    """Drive the real helper class. Returns ("ok"|"reject"|"error", detail, files, dirs)."""
    from pkgcore.ebuild import ebd_ipc
    from pkgcore.ebuild.eapi import get_eapi

    os.makedirs(ED)
    for d in inv.get("pre_dirs", ()):
        os.makedirs(ED + d, exist_ok=True)
    for p, text in inv.get("pre_files", {}).items():
        os.makedirs(os.path.dirname(ED + p), exist_ok=True)
        with open(ED + p, "w") as f:
            f.write(text)
    for p, target in inv.get("pre_links", {}).items():
        os.makedirs(os.path.dirname(ED + p), exist_ok=True)
        os.symlink(target, ED + p)
    op = _FakeOp(get_eapi(str(inv["eapi"])), ED)
    # one helper object serves every request of a build operation (ebd._ipc_helpers): a history sends its first
    # request through the very instance that then serves the judged one
    helper = getattr(ebd_ipc, HELPER_CLASS[inv["helper"]])(op)
    old_umask = os.umask(0o022)
    cwd = os.getcwd()
    first = None
    try:
        requests = ([hist_first(inv)] if "hist" in inv else []) + [inv]
        for i, rq in enumerate(requests):
            peer = _Peer(["false", w, "install", " ".join(wire_options(rq)), "\0".join(wire_args(rq))])
            try:
                helper(peer)
                out = ("ok", peer.written[-1] if peer.written else None)
            except ebd_ipc.IpcCommandError as e:
                out = ("reject", str(e)[:200])
            except ebd_ipc.IpcInternalError as e:
                out = ("error", f"IpcInternalError from {type(e.__cause__).__name__}: {e.__cause__}"[:300])
            if i < len(requests) - 1:
                first = (out,) + snapshot(ED)
                if out[0] != "ok":
                    break
    finally:
        os.umask(old_umask)
        os.chdir(cwd)
    files, dirs = snapshot(ED)
    return out + (files, dirs, snapshot_attrs(ED), first)


def hist_first(inv):
    """The first request of a depth-2 history: same helper, same EAPI, its own option state and arguments."""
    h = inv["hist"]
    return dict(inv, state=h["state"], args=h["args"], flags=h.get("flags", []))


def _ancestors(p):
    out = set()
    while p not in ("/", ""):
        p = p.rsplit("/", 1)[0] or "/"
        out.add(p)
    return out


def judge(inv, exp, got, w):
    """-> (list of (kind, msg), outcome-class)"""
    status, detail, files, dirs = got[:4]
    attrs = got[4] if len(got) > 4 else None  # fast tier only: owner / timestamps
    first = got[5] if len(got) > 5 else None
    if first is not None and first[0][0] != "ok":
        return [("history-first-request-failed", f"first request of the history failed: {first[0]}")], "FAIL"
    if exp[0] == "reject":
        if status == "reject":
            return [], "rejected-as-required"
        if status == "error":
            return [("reject-by-crash", f"PMS forbids this call; the helper died with an internal error instead of a command error: {detail}")], "FAIL"
        return [("not-rejected", f"PMS forbids this call but the helper succeeded, image now holds {sorted(files)}")], "FAIL"
    efiles, edirs, dattrs = dict(exp[1]), exp[2], exp[3]
    before_dirs = set()
    if first is not None:
        # what the first request left behind is the pre-state of the judged one
        for p0 in first[1]:
            efiles.setdefault(p0, ("any",))
        before_dirs = set(first[2])
    if status != "ok":
        return [("failed", f"valid call failed ({status}): {detail}")], "FAIL"
    if detail not in (0, "0") and not str(detail).startswith("0"):
        return [("bad-status", f"helper reported {detail!r}")], "FAIL"
    fails = []
    keep = {p[: -len("/.keep*")] for p, v in efiles.items() if v[0] == "keep"}
    matched = set()
    for p, v in efiles.items():
        if v[0] == "keep":
            d = p[: -len("/.keep*")]
            cands = [q for q in files if q.rsplit("/", 1)[0] == (d or "/").rstrip("/") and q.rsplit("/", 1)[1].startswith(".keep")] if d != "" else []
            if d == "":
                cands = [q for q in files if q.count("/") == 1 and q[1:].startswith(".keep")]
            if len(cands) != 1 or files[cands[0]][0] != "file" or files[cands[0]][2] != "":
                fails.append(("keepfile", f"{d or '/'}: expected exactly one empty .keep* file, found {cands}"))
            matched.update(cands)
            continue
        g = files.get(p)
        if g is None:
            fails.append(("missing", f"{p}: not created (image has {sorted(files)})"))
            continue
        matched.add(p)
        if v[0] == "any":
            continue
        if v[0] == "pre":
            if g[0] != "file" or g[2] != v[1]:
                fails.append(("pre-existing-changed", f"{p}: pre-existing file {v[1]!r} is now {g[:3]}"))
            continue
        if v[0] == "file":
            with open(os.path.join(w, v[2])) as f:
                content = f.read()
            if g[0] != "file":
                fails.append(("kind", f"{p}: expected a regular file, got {g[0]} -> {g[1]!r}"))
            elif g[2] != content:
                fails.append(("content", f"{p}: content {g[2]!r} != source {content!r}"))
            elif v[1] is not None and g[1] != v[1]:
                fails.append(("mode", f"{p}: mode {g[1]:04o}, requested {v[1]:04o}"))
            elif attrs is not None and len(v) > 3 and v[3] is not None:
                uid, gid, mt = attrs[p]
                want_uid = v[3]["uid"] if v[3]["uid"] is not None else os.geteuid()
                want_gid = v[3]["gid"] if v[3]["gid"] is not None else os.getegid()
                if (uid, gid) != (want_uid, want_gid):
                    fails.append(("owner", f"{p}: owner {uid}:{gid}, the option string asks for {want_uid}:{want_gid}"))
                elif v[3]["p"] != (mt == SRC_MTIME_NS):
                    fails.append(("timestamp", f"{p}: mtime {'equals' if mt == SRC_MTIME_NS else 'differs from'} the source's although the option string has {'' if v[3]['p'] else 'no '}-p"))
        elif v[0] == "sym":
            if g[0] != "sym" or g[1] != v[1]:
                fails.append(("symlink", f"{p}: expected symlink -> {v[1]!r}, got {g[:2]}"))
        elif v[0] == "symrel":
            if g[0] != "sym":
                fails.append(("symlink", f"{p}: expected a symlink, got {g[:2]}"))
            elif g[1].startswith("/") or os.path.normpath(os.path.join(os.path.dirname(p), g[1])) != os.path.normpath(v[1]):
                fails.append(("relative-link", f"{p} -> {g[1]!r} does not resolve to {v[1]!r}"))
        elif v[0] == "hard":
            o = files.get(v[1])
            if g[0] != "file" or o is None or o[0] != "file" or g[3] != o[3]:
                fails.append(("hardlink", f"{p}: not a hard link to {v[1]}"))
    extra = sorted(set(files) - matched)
    if extra:
        fails.append(("extra", f"unrequested entries {extra}"))
    allowed_dirs = set(edirs) | set(keep)
    for p in list(efiles) + list(edirs):
        allowed_dirs |= _ancestors(p if not p.endswith("/.keep*") else p[: -len("/.keep*")] + "/x")
    for d in list(inv.get("pre_dirs", ())) + [dest_dir(inv)] + [os.path.dirname(q) for q in list(inv.get("pre_files", {})) + list(inv.get("pre_links", {}))]:
        if d:
            allowed_dirs.add(d)
            allowed_dirs |= _ancestors(d)
    for d, mode in edirs.items():
        if d == "/":
            continue
        if d not in dirs:
            fails.append(("missing-dir", f"{d}: directory not created"))
        elif mode is not None and dirs[d] != mode:
            fails.append(("dir-mode", f"{d}: mode {dirs[d]:04o}, requested {mode:04o}"))
        elif attrs is not None and dattrs is not None:
            uid, gid, _mt = attrs[d]
            want_uid = dattrs["uid"] if dattrs["uid"] is not None else os.geteuid()
            want_gid = dattrs["gid"] if dattrs["gid"] is not None else os.getegid()
            if (uid, gid) != (want_uid, want_gid):
                fails.append(("dir-owner", f"{d}: owner {uid}:{gid}, the option string asks for {want_uid}:{want_gid}"))
    extra_d = sorted(set(dirs) - allowed_dirs - before_dirs)
    if extra_d:
        fails.append(("extra-dir", f"unrequested directories {extra_d}"))
    return fails, ("FAIL" if fails else "placed")


# ------------------------------------------------------------------ enumeration (fast tier)
def fast_invocations(tier):
    q = tier == "quick"
    eapis = [0, 2, 3, 4, 6, 7, 8] if q else list(range(9))
    intos = [None, "/", "/opt/x"] if q else [None, "/", "/usr", "/opt/x", "/opt/x/"]
    insintos = [None, "/usr", "/opt/x/"] if q else [None, "/", "/usr", "/opt/x", "/opt/x/", "/usr/share/my dir"]
    docintos = [None, "sub"] if q else [None, "sub", "a/b", "html"]
    insopts = [None, "-m0600", "-m 0640"] if q else [None, "-m0600", "-m 0640", "-m0755", "-m0444 -p"]
    diropts = [None, "-m0700"] if q else [None, "-m0700", "-m 0750"]
    files1 = [["f.txt"], ["x.sh"], ["sp ace.txt"], ["f.txt", "x.sh"], ["p/n.txt"], ["l.txt"]]
    out = []

    def add(helper, eapi, state=None, args=(), **kw):
        inv = {"tier": "fast", "helper": helper, "eapi": eapi, "state": {k: v for k, v in (state or {}).items() if v is not None}, "args": list(args)}
        inv.update({k: v for k, v in kw.items() if v})
        out.append(inv)

    for eapi in eapis:
        for h in ("dobin", "dosbin"):
            for into in intos:
                for a in files1 + [["@abs/f.txt"]]:
                    add(h, eapi, {"into": into}, a)
        for h, a in (("dolib.so", ["lib/libv.so"]), ("dolib.a", ["lib/libv.a"]), ("dolib", ["lib/libv.so", "lib/libv.a"])):
            if h == "dolib" and eapi >= 7:
                continue
            for into in intos:
                add(h, eapi, {"into": into}, a)
        for insinto in insintos:
            for io in insopts:
                for a in files1:
                    add("doins", eapi, {"insinto": insinto, "insopts": io}, a)
        for insinto in insintos:
            for io in insopts[:2]:
                for do in diropts:
                    for a in (["p"], ["d"], ["p", "f.txt"], ["p/sub"], ["p/"], ["g"]):
                        add("doins", eapi, {"insinto": insinto, "insopts": io, "diropts": do}, a, flags=["-r"])
        for exeinto in insintos:
            for eo in (None, "-m0700"):
                for a in files1[:4]:
                    add("doexe", eapi, {"exeinto": exeinto, "exeopts": eo}, a)
        for docinto in docintos:
            for a in files1:
                add("dodoc", eapi, {"docinto": docinto}, a)
            for a in (["p"], ["d"], ["p", "f.txt"], ["f.txt", "p"]):
                add("dodoc", eapi, {"docinto": docinto}, a)
                add("dodoc", eapi, {"docinto": docinto}, a, flags=["-r"])
        # special mode bits together with an owner/group option: chown after chmod would strip setuid/setgid from files
        for opt in special_owner_opts():
            add("doins", eapi, {"insopts": opt}, ["f.txt", "x.sh"])
            add("doins", eapi, {"insinto": "/opt/x", "insopts": opt, "diropts": opt}, ["p"], flags=["-r"])
            add("doexe", eapi, {"exeinto": "/opt/x", "exeopts": opt}, ["x.sh"])
            add("dodir", eapi, {"diropts": opt}, ["/a", "/b/c"])
            add("keepdir", eapi, {"diropts": opt}, ["/var/lib/x"])
        # pre-existing image entries at the destination: the request replaces them (never writes through a symlink)
        for h, st, ddir, srcs in (
            ("doins", {"insinto": "/opt/x"}, "/opt/x", ["f.txt"] + (["l.txt"] if eapi >= 4 else [])),
            ("doexe", {"exeinto": "/opt/x"}, "/opt/x", ["x.sh"]),
            ("dobin", {}, "/usr/bin", ["f.txt"]),
        ):
            for src in srcs:
                dst = f"{ddir}/{src}"
                add(h, eapi, st, [src], pre_links={dst: "other/t"}, pre_dirs=[ddir + "/other"])  # dangling, target dir exists
                add(h, eapi, st, [src], pre_links={dst: "missing/t"})  # dangling, target dir missing
                add(h, eapi, st, [src], pre_links={dst: "other/t"}, pre_files={ddir + "/other/t": "old\n"})  # live link
                add(h, eapi, st, [src], pre_files={dst: "old\n"})  # regular file
        # depth-2 request histories through ONE helper object: the second option string omits something the first had
        for key, h, st, a1, a2, pairs in (
            ("insopts", "doins", {"insinto": "/opt/x"}, ["f.txt"], ["x.sh"], option_drop_pairs("-m0600", "-m0644")),
            ("exeopts", "doexe", {"exeinto": "/opt/x"}, ["x.sh"], ["f.txt"], option_drop_pairs("-m0700", "-m0755")),
            ("diropts", "dodir", {}, ["/a"], ["/b/c"], option_drop_pairs("-m0700", "-m0755", files=False)),
            ("diropts", "keepdir", {}, ["/a"], ["/b/c"], option_drop_pairs("-m0700", "-m0755", files=False)),
        ):
            for o1, o2 in pairs:
                add(h, eapi, dict(st, **{key: o2}), a2, hist={"state": dict(st, **{key: o1}), "args": a1})
        add("doinfo", eapi, {}, ["v.info"])
        add("doinfo", eapi, {}, ["v.info", "f.txt"])
        for a in (["man/foo.1"], ["man/foo.de.1"], ["man/foo.pt_BR.1"], ["man/bar.3"], ["man/baz.n"], ["man/nosect"], ["man/foo.1", "man/bar.3"], ["man/foo.1", "man/nosect"]):
            add("doman", eapi, {}, a)
            if a[0] in ("man/foo.1", "man/foo.de.1", "man/bar.3"):
                add("doman", eapi, {}, a, i18n="fr")
        for into in intos:
            for a in (["po/de.mo"], ["po/en_GB.mo"], ["po/de.mo", "po/en_GB.mo"]):
                add("domo", eapi, {"into": into}, a)
        if eapi < 7:
            for docinto in docintos[:2]:
                for a in (["h/i.html"], ["h/i.css", "h/i.txt"], ["h/i.txt"], ["h/hd"], ["h/i.html", "h/hd"]):
                    add("dohtml", eapi, {"docinto": docinto}, a)
                    if "h/hd" in a:
                        add("dohtml", eapi, {"docinto": docinto}, a, flags=["-r"])
        for do in diropts:
            for a in (["/usr/share/x"], ["/a", "/b/c"], ["rel/dir"], ["/with space/d"], ["/usr/lib"]):
                add("dodir", eapi, {"diropts": do}, a)
                add("keepdir", eapi, {"diropts": do}, a)
        for src in ("/usr/bin/real", "../lib/real", "real", "/"):
            for link in ("/usr/bin/link", "/deep/er/link", "link", "/usr/lib/", "/usr/bin/", "/pre/dir", "/usr/lib", "/with space/l"):
                add("dosym", eapi, {}, [src, link], pre_dirs=["/pre/dir"] if link == "/pre/dir" else None)
        add("dosym", eapi, {}, ["/new", "/usr/bin/link"], pre_files={"/usr/bin/link": "old\n"})
        for src in ("/usr/bin/real", "/usr/lib/x/real", "/real", "/usr/bin/../lib/real", "/"):
            for link in ("/usr/bin/link", "/usr/share/a/b/link", "/link", "usr/bin/link"):
                add("dosym", eapi, {}, [src, link], flags=["-r"])
        add("dosym", eapi, {}, ["rel/real", "/usr/bin/link"], flags=["-r"])
        if eapi < 4:
            for src, link in (("/usr/bin/real", "/usr/bin/hard"), ("/usr/bin/real", "/other/dir/hard"), ("/real", "/hard")):
                add("dohard", eapi, {}, [src, link], pre_files={src: "realfile\n"})
    return out


def option_drop_pairs(odd_mode, plain_mode, files=True):
    """(first option string, second option string): the second omits the mode / -p / owner / group of the first.
    Foreign owners need root; 1:1 is just a numeric id different from root's."""
    pairs = [(odd_mode, "-p")]
    if files:
        pairs.append((f"{plain_mode} -p", plain_mode))
    if os.geteuid() == 0:
        pairs += [(f"{plain_mode} -o 1", plain_mode), (f"{plain_mode} -g 1", plain_mode)]
    return pairs


def special_owner_opts():
    """{-m4755, -m2755, -m6755} x {-o <uid>, -g <gid>} with the current ids, so the chown always succeeds."""
    return [f"{m} {o}" for m in ("-m4755", "-m2755", "-m6755") for o in (f"-o {os.getuid()}", f"-g {os.getgid()}")]


def sym_universe(tier):
    comps = ["a", "b"]
    depth = 3
    paths = ["/"]
    for n in range(1, depth + 1):
        for c in itertools.product(comps, repeat=n):
            paths.append("/" + "/".join(c))
    odd = ["/a/../b", "/a/./b", "/a//b", "/a/b/", "/a/b/../../b", "/../a", "/a/b/c/d/e", "//a", "/a/b/.", "/usr/lib64/../lib/x.so"]
    sources = paths + odd
    links = [p for p in paths if p != "/"] + ["a", "a/b", "b/a/b", "/a//b", "/a/./b", "/a/../b", "/x/../a/b", "/a/b/c/d/e/f", "./a"]
    if tier == "thorough":
        comps3 = ["a", "b", "cc"]
        more = []
        for n in range(1, 5):
            for c in itertools.product(comps3, repeat=n):
                more.append("/" + "/".join(c))
        sources = list(dict.fromkeys(sources + more[:: max(1, len(more) // 80)]))
        links = list(dict.fromkeys(links + more[3 :: max(1, len(more) // 60)]))
    return sources, links


def ref_canon(p):
    out = []
    for c in p.split("/"):
        if c in ("", "."):
            continue
        if c == "..":
            if out:
                out.pop()
            continue
        out.append(c)
    return "/" + "/".join(out)


def check_sym(source, link):
    from pkgcore.ebuild.misc import get_relative_dosym_target

    try:
        rel = get_relative_dosym_target(source, link)
    except Exception as e:
        return [f"get_relative_dosym_target({source!r}, {link!r}) raised {type(e).__name__}: {e}"], "raised"
    linkdir = ref_canon("/" + link).rsplit("/", 1)[0] or "/"
    if rel.startswith("/"):
        return [f"get_relative_dosym_target({source!r}, {link!r}) = {rel!r} is absolute"], "absolute"
    resolved = ref_canon(linkdir + "/" + rel)
    if resolved != ref_canon(source):
        return [f"get_relative_dosym_target({source!r}, {link!r}) = {rel!r}: from {linkdir!r} it resolves to {resolved!r}, not {ref_canon(source)!r}"], "wrong"
    ups = rel.split("/").count("..")
    return [], ("same-dir" if ups == 0 else "up-%d" % min(ups, 3)) + ("-unnormalised" if (ref_canon(source) != source or ref_canon("/" + link) != "/" + link.lstrip("/")) else "")


# ------------------------------------------------------------------ tasks / work / replay
CHUNK = 60


def tasks(tier):
    only = os.environ.get("VERIF_C33_TIERS")  # debug knob (mutant runs): e.g. "fast,sym"; evidence is then NOT the full space
    if only:
        return [t for t in _all_tasks(tier) if t[0] in only.split(",")]
    return _all_tasks(tier)


def _all_tasks(tier):
    n = len(fast_invocations(tier))
    out = [("fast", tier, i, min(i + CHUNK, n)) for i in range(0, n, CHUNK)]
    s, l = sym_universe(tier)
    out += [("sym", tier, i, min(i + 10, len(s))) for i in range(0, len(s), 10)]
    out += [("e2e", tier, i, i + 1) for i in range(len(e2e_sessions(tier)))]
    return out


def _eapi_group(e):
    return "eapi0-3" if e < 4 else ("eapi4-6" if e < 7 else "eapi7-8")


def _resolve_args(inv, w):
    inv = dict(inv)
    inv["args"] = [os.path.join(w, a[5:]) if a.startswith("@abs/") else a for a in inv["args"]]
    return inv


def check_fast(inv, w, top, n=[0]):
    n[0] += 1
    ED = os.path.join(top, f"ed{n[0]}")
    try:
        exp = expected(_norm_inv(inv), w)
        if exp is None:
            return None, "excluded"
        got = run_fast(_resolve_args(inv, w), w, ED)
        fails, cls = judge(inv, exp, got, w)
        return fails, cls
    finally:
        shutil.rmtree(ED, ignore_errors=True)


def _norm_inv(inv):
    inv = dict(inv)
    inv["args"] = [a[5:] if a.startswith("@abs/") else a for a in inv["args"]]
    return inv


def _scratch():
    top = f"/dev/shm/verif-C33-{os.getpid()}"
    shutil.rmtree(top, ignore_errors=True)
    os.makedirs(top)
    return top


def work(task):
    kind, tier, lo, hi = task
    evals = 0
    classes = {}
    viol = []
    samples = []
    if kind == "fast":
        top = _scratch()
        try:
            w = build_source_tree(top)
            invs = fast_invocations(tier)[lo:hi]
            for inv in invs:
                fails, cls = check_fast(inv, w, top)
                if fails is None:
                    classes["fast/excluded"] = classes.get("fast/excluded", 0) + 1
                    continue
                evals += 1
                k = f"fast/{inv['helper']}/{_eapi_group(inv['eapi'])}/{cls}"
                classes[k] = classes.get(k, 0) + 1
                if fails:
                    viol.append(dict(inv, fail=fails[0][0], msg=f"{inv['helper']} {' '.join(wire_args(inv))} (EAPI {inv['eapi']}, {inv['state']}): {fails[0][1]}"))
            samples.append(invs[0])
        finally:
            shutil.rmtree(top, ignore_errors=True)
    elif kind == "sym":
        s, l = sym_universe(tier)
        for source in s[lo:hi]:
            for link in l:
                evals += 1
                msgs, cls = check_sym(source, link)
                classes["sym/" + cls] = classes.get("sym/" + cls, 0) + 1
                if msgs:
                    viol.append({"tier": "sym", "source": source, "link": link, "msg": msgs[0]})
        samples.append({"tier": "sym", "source": s[lo], "link": l[0]})
    else:
        return e2e_work(tier, lo)
    return {"evals": evals, "classes": classes, "viol": viol, "samples": samples}


def replay(case):
    if case.get("tier") == "sym":
        return check_sym(case["source"], case["link"])[0]
    if case.get("tier") == "e2e":
        return e2e_replay(case)
    top = _scratch()
    try:
        w = build_source_tree(top)
        inv = {k: v for k, v in case.items() if k not in ("msg", "fail")}
        fails, _ = check_fast(inv, w, top)
        return [m for _, m in (fails or [])]
    finally:
        shutil.rmtree(top, ignore_errors=True)


# ------------------------------------------------------------------ e2e tier (real helper scripts on the real daemon)
# One task = one EAPI chunk: a real EbuildProcessor runs the real "setup" phase once for an ebuild whose src_install
# sources ${T}/verif-script.sh, then one real "install" phase per session with a freshly written script
# (destination/option commands, then ONE helper call resolved through the EAPI's real helper PATH).
E2E_CHUNK = 9
# quick tier (18 real-daemon sessions, one task = one daemon + setup phase per EAPI band 0-3 / 4-6 / 7-8): indices into
# the base session list of e2e_invs.  Every helper once, plus each band's own rules: EAPI 0 (a failing helper returns
# non-zero without aborting, dohard/dolib/dohtml allowed), EAPI 4 (helpers die, dohard banned, -i18n, dangling symlink
# kept), EAPI 8 (dolib banned, dosym -r).  The full list x EAPI 0-8 is the thorough tier.
QUICK_E2E = {
    0: {1, 7, 18, 29, 38},  # dobin into, dolib, dodoc dir (non-fatal reject), dohtml -r, dohard
    4: {13, 15, 25, 38},  # doins -r with dangling symlink, doexe exeinto+exeopts, doman -i18n, dohard banned
    8: {3, 5, 6, 7, 20, 27, 31, 32, 37},  # dosbin, dolib.so, dolib.a, dolib banned, doinfo, domo into, dodir diropts, keepdir, dosym -r
}


def e2e_invs(eapi, tier):
    out = []

    def add(helper, state=None, args=(), **kw):
        inv = {"tier": "e2e", "helper": helper, "eapi": eapi, "state": dict(state or {}), "args": list(args)}
        inv.update({k: v for k, v in kw.items() if v})
        out.append(inv)

    add("dobin", {}, ["f.txt"])
    add("dobin", {"into": "/opt/x"}, ["x.sh", "f.txt"])
    add("dobin", {"into": "/"}, ["f.txt"])
    add("dosbin", {}, ["x.sh"])
    add("dosbin", {"into": "/opt/x"}, ["f.txt"])
    add("dolib.so", {}, ["lib/libv.so"])
    add("dolib.a", {"into": "/opt/x"}, ["lib/libv.a"])
    add("dolib", {}, ["lib/libv.so"])
    add("doins", {}, ["f.txt"])
    add("doins", {}, ["sp ace.txt"])
    add("doins", {"insinto": "/opt/x", "insopts": "-m0600"}, ["f.txt", "x.sh"])
    add("doins", {"insinto": "/usr", "diropts": "-m0700"}, ["p"], flags=["-r"])
    add("doins", {"insinto": "/usr/share/v"}, ["d"], flags=["-r"])
    add("doins", {"insinto": "/usr/share/v"}, ["g"], flags=["-r"])
    add("doexe", {}, ["x.sh"])
    add("doexe", {"exeinto": "/opt/x", "exeopts": "-m0700"}, ["f.txt"])
    add("dodoc", {}, ["f.txt"])
    add("dodoc", {"docinto": "sub"}, ["f.txt", "x.sh"])
    add("dodoc", {}, ["p"])
    add("dodoc", {}, ["p"], flags=["-r"])
    add("doinfo", {}, ["v.info"])
    add("doman", {}, ["man/foo.1", "man/bar.3"])
    add("doman", {}, ["man/foo.de.1"])
    add("doman", {}, ["man/foo.pt_BR.1"])
    add("doman", {}, ["man/nosect"])
    add("doman", {}, ["man/foo.1"], i18n="fr")
    add("domo", {}, ["po/de.mo"])
    add("domo", {"into": "/opt/x"}, ["po/en_GB.mo"])
    add("dohtml", {}, ["h/i.html", "h/i.txt"])
    add("dohtml", {}, ["h/hd"], flags=["-r"])
    add("dodir", {}, ["/usr/share/x"])
    add("dodir", {"diropts": "-m0700"}, ["/a", "/b/c"])
    add("keepdir", {}, ["/var/lib/x"])
    add("dosym", {}, ["/usr/bin/real", "/usr/bin/link"])
    add("dosym", {}, ["../lib/real", "/deep/er/link"])
    add("dosym", {}, ["real", "/usr/bin/"])
    add("dosym", {}, ["real", "/usr/lib"])
    add("dosym", {}, ["/usr/bin/real", "/usr/share/a/link"], flags=["-r"])
    add("dohard", {}, ["/real", "/other/hard"], pre_files={"/real": "realfile\n"})
    if tier == "quick":
        keep = QUICK_E2E[eapi]
        return [inv for i, inv in enumerate(out) if i in keep]
    if tier == "thorough":
        add("dobin", {"into": "/usr"}, ["sp ace.txt"])
        add("doins", {"insinto": "/opt/x/", "insopts": "-m 0640"}, ["p/n.txt"])
        add("doins", {}, ["l.txt"])
        add("doexe", {"exeinto": "/usr/libexec/v"}, ["x.sh", "f.txt"])
        add("dodoc", {"docinto": "a/b"}, ["f.txt"])
        add("dodoc", {"docinto": "sub"}, ["f.txt", "p"], flags=["-r"])
        add("doman", {}, ["man/baz.n"])
        add("doman", {}, ["man/foo.de.1"], i18n="fr")
        add("domo", {"into": "/"}, ["po/de.mo", "po/en_GB.mo"])
        add("dohtml", {"docinto": "sub"}, ["h/i.css"])
        add("dohtml", {}, ["h/hd"])
        add("keepdir", {"diropts": "-m0700"}, ["/a", "/b/c"])
        add("dodir", {}, ["/with space/d"])
        add("dosym", {}, ["/new", "/usr/bin/link"], pre_files={"/usr/bin/link": "old\n"})
        add("dosym", {}, ["/usr/bin/../lib/real", "usr/bin/link"], flags=["-r"])
        add("dosym", {}, ["/", "/link"], flags=["-r"])
        add("dohard", {}, ["/usr/bin/real", "/usr/bin/hard"], pre_files={"/usr/bin/real": "realfile\n"})
    return out


def _chunk(tier):
    return E2E_CHUNK if tier == "quick" else 14


def e2e_sessions(tier):
    """[(eapi, chunk-index)]"""
    eapis = sorted(QUICK_E2E) if tier == "quick" else list(range(9))
    out = []
    for e in eapis:
        n = len(e2e_invs(e, tier))
        out += [(e, i) for i in range(0, n, _chunk(tier))]
    return out


def e2e_script(inv):
    import shlex

    lines = []
    st = inv["state"]
    for var, cmd in (("into", "into"), ("insinto", "insinto"), ("exeinto", "exeinto"), ("docinto", "docinto"), ("insopts", "insopts"), ("diropts", "diropts"), ("exeopts", "exeopts")):
        if var in st:
            lines.append(f"{cmd} {st[var] if var.endswith('opts') else shlex.quote(st[var])}")
    for d in inv.get("pre_dirs", ()):
        lines.append(f'mkdir -p "${{ED:-${{D}}}}"{shlex.quote(d)} || die')
    for p, text in inv.get("pre_files", {}).items():
        lines.append(f'mkdir -p "${{ED:-${{D}}}}"{shlex.quote(os.path.dirname(p))} || die')
        lines.append(f'printf %s {shlex.quote(text)} > "${{ED:-${{D}}}}"{shlex.quote(p)} || die')
    lines.append(" ".join([inv["helper"]] + [shlex.quote(a) for a in wire_args(inv)]))
    # EAPI 0-3: a failing helper returns non-zero without aborting the phase; EAPI 4+: it dies, nothing below runs
    lines.append('echo $? > "${T}/verif-status"')
    # the image as the helper left it (the phase compresses docs/man pages and fixes library modes afterwards)
    lines.append('ved=${ED:-${D}}; cp -a "${ved%/}" "${T}/verif-image" || die')
    return "".join(l + "\n" for l in lines)


class _Daemon:
    """Real daemon sessions for one EAPI."""

    def __init__(self, eapi_n, top, w):
        import logging
        import signal
        import types

        logging.getLogger("pkgcore").setLevel(logging.CRITICAL)
        from pkgcore import const
        from pkgcore.ebuild import eapi as eapi_mod
        from pkgcore.ebuild import ebd as ebd_mod
        from pkgcore.ebuild import ebd_ipc, processor
        from pkgcore.test.misc import FakeRepo

        # processor.py installs a SIGTERM handler raising SystemExit; a pool worker must die on terminate()
        signal.signal(signal.SIGTERM, signal.SIG_DFL)
        self.processor, self.ebd_mod = processor, ebd_mod
        eapi = eapi_mod.get_eapi(str(eapi_n))
        d = os.path.join(top, "pkg")
        os.makedirs(d)
        path = os.path.join(d, f"{PF}.ebuild")
        with open(path, "w") as f:
            f.write(f'EAPI={eapi_n}\nDESCRIPTION="x"\nSLOT=0\nsrc_install() {{\n\tcd "${{WORKDIR}}" || die\n\tsource "${{T}}/verif-script.sh"\n}}\n')
        self.pkg = types.SimpleNamespace(
            category=CATEGORY, PF=PF, P=PF, PN=PN, PV="1.0", PR="r0", PVR="1.0", eapi=eapi, ebuild=types.SimpleNamespace(path=path),
            data={}, use=(), fullslot=SLOT, slot=SLOT, chost=None, cbuild=None, ctarget=None, restrict=(),
        )  # fmt: skip
        env = {}
        for k, sub in (("T", "temp"), ("D", "image"), ("HOME", "home"), ("PKGCORE_EMPTYDIR", "empty")):
            env[k] = os.path.join(d, sub)
            os.makedirs(env[k])
        env["WORKDIR"] = w
        env["ROOT"] = "/"
        env["PKGCORE_PREFIX_SUPPORT"] = "false"
        if eapi.options.prefix_capable:
            env.update(ED=env["D"], EROOT="/", EPREFIX="", PKGCORE_PREFIX_SUPPORT="true")
        if eapi.options.has_sysroot:
            env.update(SYSROOT="/", ESYSROOT="/", BROOT="")
        env["PKGCORE_PKG_REPO"] = "verif"
        env["FEATURES"] = ""
        env["PKGCORE_EAPI_FUNCS"] = " ".join(eapi.bash_funcs)
        processor.expected_ebuild_env(self.pkg, env)
        # as ebd._set_per_phase_env composes it for src_install
        env["PATH"] = os.pathsep.join(
            list(const.PATH_FORCED_PREPEND) + list(eapi.helpers.get("global", ())) + list(eapi.helpers.get("src_install", ())) + os.environ.get("PATH", "/usr/bin:/bin").split(os.pathsep)
        )
        self.env = env
        self.ED = env.get("ED", env["D"]).rstrip("/")
        op = types.SimpleNamespace(pkg=self.pkg, observer=_Obs(), env=env, ED=env.get("ED", env["D"]), userpriv=False, domain=types.SimpleNamespace(all_installed_repos=FakeRepo(()), root="/"))
        self.handlers = {k: getattr(ebd_ipc, v)(op) for k, v in HELPER_CLASS.items()}
        self.handlers["request_bashrcs"] = lambda e: e.write("end_request")
        self.handlers["filter_env"] = ebd_ipc.FilterEnv(op)
        self.script = os.path.join(env["T"], "verif-script.sh")
        self.status = os.path.join(env["T"], "verif-status")
        self.copy = os.path.join(env["T"], "verif-image")
        with open(self.script, "w") as f:
            f.write(":\n")
        self._phase("setup")
        self.saved_env = os.path.join(d, "environment.after-setup")
        shutil.copy(os.path.join(env["T"], "environment"), self.saved_env)

    def _phase(self, phase):
        devnull = os.open(os.devnull, os.O_RDWR)
        try:
            return self.ebd_mod.run_generic_phase(self.pkg, phase, self.env, False, False, fd_pipes={0: devnull, 1: devnull, 2: devnull}, extra_handlers=self.handlers, tmpdir=self.env["T"])
        finally:
            os.close(devnull)

    def run(self, inv):
        shutil.copy(self.saved_env, os.path.join(self.env["T"], "environment"))
        shutil.rmtree(self.env["D"], ignore_errors=True)
        shutil.rmtree(self.copy, ignore_errors=True)
        if os.path.exists(self.status):
            os.unlink(self.status)
        with open(self.script, "w") as f:
            f.write(e2e_script(inv))
        old_umask = os.umask(0o022)
        try:
            try:
                self._phase("install")
                out = ("ok", 0)
            except Exception as e:
                out = ("reject", f"{type(e).__name__}: {e}"[:300])
        finally:
            os.umask(old_umask)
        if out[0] == "ok":
            try:
                with open(self.status) as f:
                    st = f.read().strip()
            except FileNotFoundError:
                st = "script did not reach the end"
            if st != "0":
                out = ("reject", f"helper exit status {st}")
        files, dirs = snapshot(self.copy) if os.path.isdir(self.copy) else ({}, {})
        return out + (files, dirs)

    def close(self):
        try:
            self.processor.shutdown_all_processors()
        except Exception:
            pass


def _e2e_check(daemon, inv, w):
    exp = expected(inv, w)
    if exp is None:
        return None, "excluded"
    got = daemon.run(inv)
    return judge(inv, exp, got, w)


def e2e_work(tier, idx):
    eapi, lo = e2e_sessions(tier)[idx]
    invs = e2e_invs(eapi, tier)[lo : lo + _chunk(tier)]
    top = _scratch()
    evals, classes, viol = 0, {}, []
    daemon = None
    try:
        w = build_source_tree(top)
        daemon = _Daemon(eapi, top, w)
        for inv in invs:
            fails, cls = _e2e_check(daemon, inv, w)
            if fails is None:
                classes["e2e/excluded"] = classes.get("e2e/excluded", 0) + 1
                continue
            evals += 1
            k = f"e2e/{inv['helper']}/{_eapi_group(eapi)}/{cls}"
            classes[k] = classes.get(k, 0) + 1
            if fails:
                viol.append(dict(inv, fail=fails[0][0], msg=f"[real daemon] {'; '.join(e2e_script(inv).splitlines()[:-2])!r} in src_install (EAPI {eapi}): {fails[0][1]}"))
    finally:
        if daemon is not None:
            daemon.close()
        shutil.rmtree(top, ignore_errors=True)
    return {"evals": evals, "classes": classes, "viol": viol, "samples": [invs[0]]}


def e2e_replay(case):
    inv = {k: v for k, v in case.items() if k not in ("msg", "fail")}
    top = _scratch()
    daemon = None
    try:
        w = build_source_tree(top)
        daemon = _Daemon(inv["eapi"], top, w)
        fails, _ = _e2e_check(daemon, inv, w)
        return [m for _, m in (fails or [])]
    finally:
        if daemon is not None:
            daemon.close()
        shutil.rmtree(top, ignore_errors=True)


def SETUP(tier):
    """Run once in the parent: sweep scratch directories left by workers of an earlier run that were killed
    (time cap / pool.terminate) before their `finally` ran.  Only directories of this property whose pid is dead."""
    import re

    for name in os.listdir("/dev/shm"):
        m = re.fullmatch(r"verif-C33-(\d+)", name)
        if m and not os.path.exists(f"/proc/{m.group(1)}"):
            shutil.rmtree(os.path.join("/dev/shm", name), ignore_errors=True)


# ------------------------------------------------------------------ classifiers for known findings
def _c_doman_i18n(case):
    """doman -i18n=<lang>: the option is declared store_true (internal error) and ignored before EAPI 4."""
    return case.get("helper") == "doman" and bool(case.get("i18n"))


def _c_doman_lang_underscore(case):
    """doman language code ll_CC in the file name is not recognised (regex lacks the underscore)."""
    return (
        case.get("helper") == "doman"
        and not case.get("i18n")
        and case.get("eapi", 0) >= 2
        and case.get("fail") in ("missing", "extra")
        and any((ls := _lang_split(os.path.basename(a))) and "_" in ls[1] for a in case.get("args", ()))
    )


def _c_dohtml_recursive_filter(case):
    """dohtml -r installs files whose extension is not allowed."""
    return case.get("helper") == "dohtml" and "-r" in case.get("flags", ()) and case.get("fail") == "extra"


def _c_dosym_host_dir(case):
    """dosym rejects a link name that is a directory on the build host although absent from the image."""
    a = case.get("args", ())
    return case.get("helper") == "dosym" and case.get("fail") == "failed" and len(a) == 2 and not a[1].endswith("/") and os.path.isdir(a[1]) and _j(a[1]) not in case.get("pre_dirs", ())


def _c_dohard_host_source(case):
    """dohard hands an absolute source to os.link() unprefixed (host path instead of ${ED})."""
    a = case.get("args", ())
    return case.get("helper") == "dohard" and case.get("fail") == "failed" and len(a) == 2 and a[0].startswith("/") and case.get("eapi", 9) < 4


SYMLINK_SOURCES = ("l.txt", "d", "g")


def _c_install_symlink_deref(case):
    """_install stat()s / utime()s through symlink sources: dangling links and -p on links fail."""
    return (
        case.get("helper") == "doins"
        and case.get("fail") == "failed"
        and case.get("eapi", 0) >= 4
        and any(a.rstrip("/") in SYMLINK_SOURCES for a in case.get("args", ()))
        and ("g" in case.get("args", ()) or "-p" in case.get("state", {}).get("insopts", "").split())
    )


CLASSIFIERS = {
    "doman-i18n-option-unusable": _c_doman_i18n,
    "doman-language-code-with-territory": _c_doman_lang_underscore,
    "dohtml-recursive-ignores-extension-filter": _c_dohtml_recursive_filter,
    "dosym-directory-test-on-build-host": _c_dosym_host_dir,
    "dohard-absolute-source-is-host-path": _c_dohard_host_source,
    "install-dereferences-symlink-sources": _c_install_symlink_deref,
}
