"""C34 saved-environment filtering removes exactly the named definitions (E1; bash itself is the oracle).

Every dump is text that bash wrote (`set`, `declare -p`, `declare -f` output of definitions sourced into a clean
shell).  `pkgcore.ebuild.filter_env.main_run` filters it; bash then sources the original and the filtered text in
clean shells and the resulting definitions are compared.
"""

import hashlib
import io
import os
import re
import shutil
import signal
import subprocess
import tempfile

PROPERTY = "C34"
LEVEL = "exploration"
ENGINE = "enum"
TECHNIQUE = (
    "exhaustive enumeration of ordered tuples of bash-written definitions x a fixed filter family through "
    "filter_env.main_run; oracle = GNU bash sourcing the original and the filtered text in clean shells "
    "(declare -p / declare -f comparison) plus a byte-level 'kept fragments intact, nothing else but whitespace' test"
)
RULE = (
    "a definition is a variable (value alphabet covering every quoting style bash emits: bare, '..', \"..\", $'..', "
    "indexed/associative arrays, attributes) dumped by bash as a `set` line (plain assignment) or as a `declare -p` line, or "
    "a function (body alphabet: braces in quotes, ${..} with quoted/escaped braces, here-documents with } lines, case arms, "
    "backquote comments, (( )), $(( << )), $( ), nested functions, redirected bodies, names with - . : +) dumped by `declare -f`. "
    "A dump is the concatenation, in the enumerated order, of the fragments bash printed (checked once to equal a "
    "multi-name declare). Every dump is filtered with every filter of the family (none; each name as variable/function "
    "blacklist and whitelist; each name given to the other matcher; a two-character prefix regex; one two-pattern list used "
    "black-then-white, another white-then-black, and single calls giving one list to both matchers in opposite modes; all names, "
    "black and white). The calls of one dump are made in a fixed order on a freshly executed filter module and replay repeats the "
    "whole sequence. Expected removal set = names fully matched by a pattern (inverted in whitelist mode) among top-level "
    "assignments/functions. A class is (filter kind, removed count) or the multiset of definition kinds."
)
ASSUMPTIONS = [
    "bash 5.2 is the oracle: a definition is 'preserved' when `declare -p NAME` / `declare -f NAME` print identical text after sourcing the original and the filtered dump in clean `env -i bash --norc --noprofile` shells, sourcing returns 0 and prints nothing, and no other variable/function name appears",
    "'no stray bytes' is read as: the output is the input with, for every removed definition, its fragment replaced by a whitespace-only subsequence of that fragment; kept fragments are byte-identical and in order",
    "Excl: variable filters that would name a variable dumped as a `declare ...` command (the statement speaks of plain assignments; pkgcore documents that declare lines slide past the filter) -- such (dump, filter) combinations are skipped and counted, `declare -p` lines are otherwise part of the dumps and must be preserved",
    "Excl: `set`-style dump lines of associative arrays (bash's own `set` output for them cannot be sourced back)",
    "Excl: whitelist mode with an empty pattern list (main_run ignores the whitelist flag then; the statement does not say)",
    "Excl: definitions repeated within one dump, dumps not produced by bash (hand-written shell), patterns other than escaped literal names and NAME-PREFIX.* regexes",
    "only the listed value/body alphabet is covered; dumps hold at most 2 (quick) / 3 (thorough) definitions; quick pairs need one member from the core sub-alphabet",
]
BOUNDS = {
    "quick": "all single definitions of the full item alphabet (set-style vars, declare-style vars, functions) and all ordered pairs with at least one member in the core sub-alphabet, x the filter family",
    "thorough": "all single definitions, all ordered pairs of the full item alphabet and all ordered triples over the core sub-alphabet, x the filter family",
}

# ----------------------------------------------------------------------------------------------- alphabet
# variable values, written as bash source right-hand sides
_VAR_RHS = [
    "plain",
    "''",
    "'a b'",
    '"it\'s"',
    "'say \"hi\"'",
    "$'a\\nb'",
    "$'a\\tb'",
    "'a=b'",
    "'#notcomment'",
    "'a #b'",
    "'a;b'",
    "'}'",
    "'{'",
    "'a}b{c'",
    "'${x}'",
    "'$(cmd)'",
    "'`cmd`'",
    "'\\'",
    "'a\\'",
    "'('",
    "')'",
    "'<<EOF'",
    "\"\\$'\"",
    "\"'\"",
    "'\"'",
    "$'it\\'s\\n}'",
    "'f () { '",
    "'\u00e9'",
    "'-x'",
    "'*'",
    "'$'",
    "'${'",
    "'$(('",
    "$'\\001'",
    "' '",
    "(a b)",
    '("a b" "c}d")',
    "()",
    "([3]=x)",
    "('(' ')' '#')",
    "($'a\\nb' \"it's\")",
    "$'\\tC:\\\\'",
    "$'a\\n\\\\'",
    "$'\\\\\\'x\\n\\\\'",
    "($'\\t\\\\' 'next')",
]
# (name, full source line, styles)
VARS = []
for _i, _rhs in enumerate(_VAR_RHS):
    VARS.append((f"v{_i:02d}", f"v{_i:02d}={_rhs}", ("set", "decl")))
VARS += [
    ("v0", "v0='prefix of v00'", ("set", "decl")),
    ("v00x", "v00x='v00 is my prefix'", ("set", "decl")),
    ("V00", "V00=upper", ("set", "decl")),
    ("_u", "_u='}'", ("set", "decl")),
    ("vi", "declare -i vi=5", ("set", "decl")),
    ("vx", "export vx='x=y #z;'", ("set", "decl")),
    ("vl", "declare -l vl='}'", ("set", "decl")),
    ("vA", "declare -A vA=([k]=v [\"k 2\"]=\"v }\")", ("decl",)),
    ("vA2", "declare -A vA2=(['}']=')')", ("decl",)),
]

_FUNC_BODIES = [
    ":",
    'echo "}"',
    "echo '}'",
    'echo "${x:-"}"}"',
    'echo "${x:-}}"',
    "echo ${x//\\}/}",
    "echo ${x%\\}}",
    'echo "${x#{}"',
    "echo ${x:+'}'}",
    'echo "${x//\'}\'/}"',
    'echo "${x:-${y:-"}"}}"',
    "echo ${x/\\}/\\{}",
    "cat <<EOF\n}\nEOF",
    "cat <<'EOF'\n}\n$(\nEOF",
    "cat <<-EOF\n\t}\n\tEOF",
    "cat <<EOF\nEOFX\n EOF\n}\nEOF",
    'cat <<< "}"',
    "cat <<A <<B\n}\nA\n{\nB",
    "cat <<EOF | cat\n}\nEOF",
    "cat <<EOF\n}\nEOF\necho after",
    'case $x in a) echo 1;; *\\)) echo 2;; "}") ;; esac',
    'case $x in (a|b) echo "(";; esac',
    "x=`echo a # it's }\n`",
    "echo a#b ${#x} $# ${x#y} $((16#ff))",
    "(( x > 1 )) && echo y",
    "for ((i=0;i<3;i++)); do echo $i; done",
    "echo $(( 1 << 2 ))",
    "x=$(( 1 << 2 ))",
    'let "x=1<<2"',
    'echo $(echo ")" "}")',
    'echo "$(echo "}")"',
    'g() { echo "}"; }; g',
    "( echo sub )",
    "echo \\} \\{ {a,b} {1..3}",
    "echo }",
    "local x='}' y=} z=(a \"}\" b)",
    'echo ${!x} ${#arr[@]} ${x:0:1} "${arr[@]}"',
    "echo $'}' $'it\\'s }' $\"}\"",
    "trap 'echo }' EXIT",
    "{ echo a; echo b; }",
    "echo \"#\" '#' \\# a",
    'echo "l1\n}\nl3"',
    "echo 'l1\n}\nl3'",
    '[[ $x =~ ^\\{.*\\}$ ]] && [[ $x == *"}"* ]] && [[ $x = \\} ]]',
    "if [[ -n $x ]]; then echo 1; elif true; then echo 2; else echo 3; fi",
    'while read -r l; do echo "$l"; done < <(echo "}")',
    "echo hi > /dev/null 2>&1",
    "v00=inner; f00() { :; }; v01=x",
    'echo "a\\"}"',
    'echo `echo "}"`',
    'echo "`echo }`"',
    'echo "${x:-it\'s}" "${a:-${b:-it\'s}}" }',
    'echo "${x:-\\}}" ${x:-$(echo "}")}',
    "cat <<EOF\nEOF;\n}\nEOF",
    "cat <<EOF\nEOF}\n}\nEOF",
    'cat <<"EOF"\n}\nEOF',
    'cat <<EOF\n${x:-"}"}\n}\nEOF',
    "x=$(cat <<EOF\n}\nEOF\n)",
    "cat <<-EOF\n EOF\n\t}\n\tEOF",
]
FUNCS = []
for _i, _b in enumerate(_FUNC_BODIES):
    FUNCS.append((f"f{_i:02d}", f"f{_i:02d}() {{\n{_b}\n}}"))
FUNCS += [
    ("f0", "f0() { echo prefix of f00; }"),
    ("f00x", "f00x() { echo f00 is my prefix; }"),
    ("F00", "F00() { echo upper; }"),
    ("f-x", "f-x() { echo '}'; }"),
    ("f.x", "f.x() { echo '}'; }"),
    ("f:x", "f:x() { echo '}'; }"),
    ("f+x", "f+x() { echo '}'; }"),
    ("fredir", "fredir() { echo hi; } > /dev/null"),
    ("fsub", "fsub() ( echo '}' )"),
    ("fkw", "function fkw { echo '}'; }"),
]

# core sub-alphabet for triples (one representative per parser branch)
_CORE_V = ["v02", "v03", "v05", "v11", "v25", "v36", "vx", "v41"]
_CORE_F = ["f01", "f03", "f05", "f12", "f20", "f22", "f26", "f31", "f34", "f47", "fredir"]


def items(tier="quick"):
    """(style, name, src) in simplest-first order. style in {"set","decl","func"}."""
    out = []
    for name, src, styles in VARS:
        if "set" in styles:
            out.append(("set", name, src))
    for name, src in FUNCS:
        out.append(("func", name, src))
    for name, src, styles in VARS:
        if "decl" in styles:
            out.append(("decl", name, src))
    return out


def core_items():
    allv = {n: (s, st) for n, s, st in VARS}
    allf = dict(FUNCS)
    out = []
    for n in _CORE_V:
        out.append(("set", n, allv[n][0]))
    for n in _CORE_F:
        out.append(("func", n, allf[n]))
    for n in _CORE_V[:3]:
        out.append(("decl", n, allv[n][0]))
    return out


# ----------------------------------------------------------------------------------------------- bash side
_BASH = ["env", "-i", "PATH=/usr/bin:/bin", "LC_ALL=C.UTF-8", "bash", "--norc", "--noprofile"]

# One long-lived clean bash per worker evaluates texts without forking (the machine is shared; fork+exec dominates).
# It sources the text, reports declare -p/-f of the asked names plus *all* variable/function names, traps, options
# and aliases; python then unsets whatever the text defined.  Any anomaly (non-zero status, output, unexpected name,
# changed option/trap/alias) retires the process and the text is evaluated again in a brand-new one, so every reported
# observation comes from a shell in which nothing but clean, fully undone evaluations happened before.
_SERVER = r"""
__report() {
  {
    printf 'rc=%s\n' "$__rc"
    for __n in $2; do printf '\n@@V %s\n' "$__n"; declare -p -- "$__n" 2>/dev/null || echo '<<UNSET>>'; done
    for __n in $3; do printf '\n@@F %s\n' "$__n"; declare -f -- "$__n" 2>/dev/null || echo '<<UNSET>>'; done
    printf '\n@@ALLV\n'; compgen -v
    printf '\n@@ALLF\n'; compgen -A function
    printf '\n@@MISC\n'; trap -p; echo "$-"; echo "$BASHOPTS"; echo "$SHELLOPTS"; alias; echo "$PWD"; echo "$#"
    printf '\n@@END\n'
  } > "$1" 2>/dev/null
}
while IFS= read -r __line; do
  source "$__line"
  echo '@@DONE'
done
"""


def _q(s):
    return "'" + s.replace("'", "'\\''") + "'"


class _Server:
    def __init__(self, cwd):
        import select  # noqa: F401

        self.p = subprocess.Popen(
            _BASH + ["-c", _SERVER, "server"], stdin=subprocess.PIPE, stdout=subprocess.PIPE, stderr=subprocess.DEVNULL, cwd=cwd
        )
        self.evals = 0
        self.cmdfile = os.path.join(cwd, f"cmd{self.p.pid}")
        assert "\n" not in self.cmdfile

    def cmd(self, line, timeout=120):
        import select

        with open(self.cmdfile, "w", encoding="utf-8") as f:
            f.write(line + "\n")
        self.p.stdin.write(self.cmdfile.encode("utf-8") + b"\n")
        self.p.stdin.flush()
        buf = b""
        while not buf.endswith(b"@@DONE\n"):
            r, _, _ = select.select([self.p.stdout], [], [], timeout)
            if not r:
                return False
            chunk = os.read(self.p.stdout.fileno(), 65536)
            if not chunk:
                return False
            buf += chunk
        return True

    def close(self):
        try:
            self.p.stdin.close()
        except OSError:
            pass
        try:
            self.p.wait(timeout=5)
        except subprocess.TimeoutExpired:
            self.p.kill()
            self.p.wait()
        self.p.stdout.close()


_FRAGS = {}  # (style, name, src) -> text bash printed; filled by SETUP in the parent, inherited by forked workers


def _compute_fragments(keys, cwd):
    """one clean bash, no forks: eval the definition, print it the asked way, undo it"""
    if not keys:
        return
    srv = _Server(cwd)
    try:
        for i, (style, name, src) in enumerate(keys):
            out = os.path.join(cwd, f"frag{os.getpid()}.{i}")
            how = {"decl": f"declare -p -- {_q(name)}", "func": f"declare -f -- {_q(name)}", "set": "set"}[style]
            line = f"eval {_q(src)} 2>{_q(out + '.err')}; {how} >{_q(out)} 2>>{_q(out + '.err')}; unset -v -- {_q(name)} 2>/dev/null; unset -f -- {_q(name)} 2>/dev/null"
            if not srv.cmd(line):
                raise AssertionError(f"harness: bash did not answer while dumping {style} {name}")
            text, err = _read(out), _read(out + ".err")
            os.unlink(out)
            os.unlink(out + ".err")
            if err or not text:
                raise AssertionError(f"harness: bash could not dump {style} {name}: {err!r}")
            if style == "set":
                lines = [l for l in text.split("\n") if l.startswith(name + "=")]
                if len(lines) != 1:
                    raise AssertionError(f"harness: no single `set` line for {name}: {lines!r}")
                text = lines[0] + "\n"
            if not text.endswith("\n") or not text.strip():
                raise AssertionError(f"harness: empty fragment for {style} {name}")
            _FRAGS[(style, name, src)] = text
    finally:
        srv.close()


def SETUP(tier):
    d = tempfile.mkdtemp(dir="/dev/shm", prefix=f"verif-C34-{os.getpid()}-setup-")
    try:
        _compute_fragments([k for k in items(tier) if k not in _FRAGS], d)
    finally:
        shutil.rmtree(d, ignore_errors=True)


class Shell:
    """scratch directory + memoised bash evaluations"""

    def __init__(self):
        self.dir = tempfile.mkdtemp(dir="/dev/shm", prefix=f"verif-C34-{os.getpid()}-")
        self.state_cache = {}
        self.n = 0
        self.bash_runs = 0
        self.srv = None
        self.baseline = None

    def close(self):
        if self.srv is not None:
            self.srv.close()
            self.srv = None
        shutil.rmtree(self.dir, ignore_errors=True)

    def fragment(self, style, name, src):
        key = (style, name, src)
        if key not in _FRAGS:
            _compute_fragments([key], self.dir)
            self.bash_runs += 1
        return _FRAGS[key]

    def _fresh(self):
        if self.srv is not None:
            self.srv.close()
        self.srv = _Server(self.dir)
        self.bash_runs += 1

    def _eval_once(self, text, vn, fn):
        self.n += 1
        path = os.path.join(self.dir, "t")  # fixed names: every evaluation truncates and rewrites them
        with open(path, "w", encoding="utf-8") as f:
            f.write(text)
        ok = self.srv.cmd(
            f"source {_q(path)} >{_q(path + '.out')} 2>{_q(path + '.err')} </dev/null; __rc=$?; __report {_q(path + '.state')} {_q(vn)} {_q(fn)}"
        )
        self.srv.evals += 1
        return _parse_state(path) if ok else {"broken": True}

    def _undo(self, st):
        extra_v = [n for n in st["ALLV"] if n not in self.baseline["ALLV"]]
        extra_f = [n for n in st["ALLF"] if n not in self.baseline["ALLF"]]
        line = ":"
        if extra_v:
            line += "; unset -v -- " + " ".join(_q(n) for n in extra_v)
        if extra_f:
            line += "; unset -f -- " + " ".join(_q(n) for n in extra_f)
        return self.srv.cmd(line)

    def _anomalous(self, st):
        if st.get("broken"):
            return True
        b = self.baseline
        return bool(st["rc"] != 0 or st["err"] or st["out"] or st["MISC"] != b["MISC"])

    def state(self, text, vnames, fnames, expected_names=None):
        """state of a clean bash after sourcing text.  expected_names: names the text may define without being an anomaly."""
        vn, fn = " ".join(vnames), " ".join(fnames)
        k = (text, vn, fn)
        st = self.state_cache.get(k)
        if st is not None:
            return st
        if self.srv is None:
            self._fresh()
        if self.baseline is None:
            self.baseline = {"ALLV": [], "ALLF": [], "MISC": None}
            b = self._eval_once("", "", "")
            if b.get("broken") or b["rc"] != 0:
                raise AssertionError(f"harness: baseline evaluation failed: {b}")
            self.baseline = b
        st = self._eval_once(text, vn, fn)
        allowed = set(vnames) | set(fnames)
        odd = self._anomalous(st) or bool(
            (set(st["ALLV"]) - set(self.baseline["ALLV"]) - allowed) or (set(st["ALLF"]) - set(self.baseline["ALLF"]) - allowed)
        )
        if odd:
            if self.srv.evals > 2:  # something ran before in this process: repeat in a brand-new one
                self._fresh()
                st = self._eval_once(text, vn, fn)
            self._fresh()  # never reuse a shell after an anomaly
        elif not self._undo(st):
            self._fresh()
        if len(self.state_cache) > 6000:
            self.state_cache.clear()
        self.state_cache[k] = st
        return st

    def states(self, texts, vnames, fnames):
        return [self.state(t, vnames, fnames) for t in texts]


def _read(path):
    try:
        with open(path, "rb") as f:
            return f.read().decode("utf-8", "replace")
    except FileNotFoundError:
        return None


def _parse_state(path):
    raw = _read(path + ".state")
    st = {"rc": None, "err": _read(path + ".err"), "out": _read(path + ".out"), "V": {}, "F": {}, "ALLV": None, "ALLF": None, "MISC": None}
    if raw is None or not raw.endswith("\n@@END\n"):
        return {"broken": True}
    parts = raw.split("\n@@")
    st["rc"] = int(parts[0].strip()[3:]) if parts[0].startswith("rc=") else None
    for part in parts[1:]:
        head, _, body = part.partition("\n")
        if head.startswith("V "):
            st["V"][head[2:]] = None if body.strip() == "<<UNSET>>" else body
        elif head.startswith("F "):
            st["F"][head[2:]] = None if body.strip() == "<<UNSET>>" else body
        elif head == "ALLV":
            st["ALLV"] = sorted(x for x in body.split("\n") if x and not x.startswith("__") and x not in ("_", "BASH_ARGV0"))
        elif head == "ALLF":
            st["ALLF"] = sorted(x for x in body.split("\n") if x and not x.startswith("__"))
        elif head == "MISC":
            st["MISC"] = body
    return st


# ----------------------------------------------------------------------------------------------- filters + reference
def filters_for(its):
    """its: list of (style, name, src). Returns list of (kind, vars, funcs, vars_wl, funcs_wl)."""
    out = [("none", (), (), False, False)]
    for idx, (style, name, _src) in enumerate(its):
        pat = re.escape(name)
        if style == "func":
            out.append((f"func-black", (), (pat,), False, False))
            out.append((f"func-white", (), (pat,), False, True))
            out.append((f"func-name-as-var", (pat,), (), False, False))
        else:
            out.append((f"var-black", (pat,), (), False, False))
            out.append((f"var-white", (pat,), (), True, False))
            out.append((f"var-name-as-func", (), (pat,), False, False))
    first = its[0][1]
    pre = re.escape(first[:2]) + ".*"
    out.append(("prefix-regex", (pre,), (pre,), False, False))
    # The same name list in both modes, in both orders, and one call giving the same list to both matchers with
    # different modes.  The second pattern is a never-matching literal unique to the dump and to the sub-sequence, so the
    # three sequences meet fresh pattern lists whatever ran before in this process (state kept between calls shows here).
    salt = "nomatch_" + hashlib.md5("|".join(f"{st}:{n}" for st, n, _ in its).encode()).hexdigest()[:8]
    p0 = re.escape(first)
    out.append(("list-black-then-white:black", (p0, salt + "a"), (p0, salt + "a"), False, False))
    out.append(("list-black-then-white:white", (p0, salt + "a"), (p0, salt + "a"), True, True))
    out.append(("list-white-then-black:white", (p0, salt + "b"), (p0, salt + "b"), True, True))
    out.append(("list-white-then-black:black", (p0, salt + "b"), (p0, salt + "b"), False, False))
    out.append(("one-call-vars-white-funcs-black", (p0, salt + "c"), (p0, salt + "c"), True, False))
    out.append(("one-call-vars-black-funcs-white", (p0, salt + "d"), (p0, salt + "d"), False, True))
    vs = tuple(re.escape(n) for s, n, _ in its if s != "func")
    fs = tuple(re.escape(n) for s, n, _ in its if s == "func")
    out.append(("all-names", vs, fs, False, False))
    if len(its) > 1:
        out.append(("all-white", vs or ("nomatch_[0-9]+",), fs or ("nomatch_[0-9]+",), True, True))
    # de-duplicate (same arguments reached by two routes)
    seen = set()
    res = []
    for f in out:
        if f[1:] not in seen:
            seen.add(f[1:])
            res.append(f)
    return res


def ref_removed(style, name, flt):
    """reference: is the top-level definition `name` removed by the filter?"""
    _kind, vpats, fpats, vwl, fwl = flt
    pats, wl = (fpats, fwl) if style == "func" else (vpats, vwl)
    if not pats:
        return False
    hit = any(re.fullmatch(p, name) is not None for p in pats)
    return (not hit) if wl else hit


class _Timeout(Exception):
    pass


def _alarm(signum, frame):
    raise _Timeout()


def run_filter(dump, flt):
    from pkgcore.ebuild import filter_env

    _kind, vpats, fpats, vwl, fwl = flt
    out = io.BytesIO()
    old = signal.signal(signal.SIGALRM, _alarm)
    signal.setitimer(signal.ITIMER_REAL, 20.0)
    try:
        filter_env.main_run(out, dump, list(vpats), list(fpats), vwl, fwl)
    finally:
        signal.setitimer(signal.ITIMER_REAL, 0)
        signal.signal(signal.SIGALRM, old)
    return out.getvalue()


def _is_subseq(small, big):
    it = iter(big)
    return all(c in it for c in small)


def byte_check(frags, removed, out):
    """kept fragments intact and in order; of a run of removed fragments only a whitespace subsequence may remain"""
    pos = 0
    i = 0
    n = len(frags)
    while i < n:
        if removed[i]:
            k = i
            while k < n and removed[k]:
                k += 1
            group = "".join(frags[i:k])
            j = pos
            while j < len(out) and out[j] in " \t\n":
                j += 1
            # the whitespace run belongs to the removed run (kept fragments never start with whitespace)
            left = out[pos:j]
            if not _is_subseq(left, group):
                which = f"#{i + 1}" if k == i + 1 else f"#{i + 1}..#{k}"
                return f"definition {which} was to be removed but {left!r} (not a subsequence of it) is left in its place"
            pos = j
            i = k
        else:
            frag = frags[i]
            if not out.startswith(frag, pos):
                k = 0
                while pos + k < len(out) and k < len(frag) and out[pos + k] == frag[k]:
                    k += 1
                return (
                    f"definition #{i + 1} must be preserved byte for byte but the output differs at offset {k} of it: "
                    f"expected {frag[k:k + 40]!r}, output has {out[pos + k:pos + k + 40]!r}"
                )
            pos += len(frag)
            i += 1
    if pos != len(out):
        return f"stray bytes at the end of the output: {out[pos:pos + 60]!r}"
    return None


def check_dump(sh, its, only_filter=None):
    """Evaluate one dump against its filter family. Returns (evals, classes, violations, skipped)."""
    # state the filter module keeps between calls must not leak from one dump into the next (a replay starts from a fresh
    # process): every dump's call sequence starts from a freshly executed module
    import importlib

    from pkgcore.ebuild import filter_env

    importlib.reload(filter_env)
    frags = [sh.fragment(*it) for it in its]
    dump = "".join(frags)
    vnames = [n for s, n, _ in its if s != "func"]
    fnames = [n for s, n, _ in its if s == "func"]
    flts = filters_for(its)
    selected = None
    if only_filter is not None:
        # replay: every main_run call of the dump's family is made again, in the same order (the code under test may
        # keep state between calls); only the recorded filter is judged
        selected = tuple(tuple(x) if isinstance(x, list) else x for x in only_filter[1:])
    plan = []
    skipped = 0
    classes = {}
    viol = []
    for flt in flts:
        removed = [ref_removed(s, n, flt) for s, n, _ in its]
        if any(r and s == "decl" for r, (s, n, _) in zip(removed, its)):
            skipped += 1
            continue
        try:
            outb = run_filter(dump, flt)
            err = None
        except _Timeout:
            outb, err = None, "filter_env.main_run did not return within 20 s"
        except Exception as e:  # noqa: BLE001 - any exception of the code under test is an observation
            outb, err = None, f"filter_env.main_run raised {type(e).__name__}: {e}"
        plan.append((flt, removed, outb, err))
    if selected is not None:
        plan = [p for p in plan if tuple(p[0][1:]) == selected]
    texts = [dump]
    for flt, removed, outb, err in plan:
        if outb is not None:
            try:
                texts.append(outb.decode("utf-8"))
            except UnicodeDecodeError:
                texts.append(None)
    sts = sh.states([t for t in texts if t is not None], vnames, fnames)
    base = sts[0]
    # harness sanity: bash must be able to read back what it wrote
    if base.get("broken") or base["rc"] != 0 or base["err"] or base["out"]:
        raise AssertionError(f"harness: bash cannot source its own dump {dump!r}: {base}")
    for s, n, _ in its:
        if (base["F"] if s == "func" else base["V"]).get(n) is None:
            raise AssertionError(f"harness: {n} undefined after sourcing the original dump {dump!r}")
    bystate = dict(zip([t for t in texts if t is not None], sts))
    kinds = "+".join(s for s, _, _ in its)
    for flt, removed, outb, err in plan:
        msgs = []
        if err:
            msgs.append(err)
        else:
            try:
                out = outb.decode("utf-8")
            except UnicodeDecodeError:
                out = None
                msgs.append("output is not valid UTF-8 although the input was")
            if out is not None:
                b = byte_check(frags, removed, out)
                if b:
                    msgs.append(b)
                st = bystate[out]
                if st.get("broken"):
                    msgs.append("bash could not report its state after sourcing the filtered text")
                else:
                    if st["rc"] != 0 or st["err"] or st["out"]:
                        err_txt = re.sub(re.escape(sh.dir) + r"/t\d+", "<filtered>", st["err"])
                        msgs.append(f"sourcing the filtered text: status {st['rc']}, stderr {err_txt[:200]!r}, stdout {st['out'][:80]!r}")
                    for (s, n, _), rem in zip(its, removed):
                        tab = "F" if s == "func" else "V"
                        got, was = st[tab].get(n), base[tab].get(n)
                        if rem and got is not None:
                            msgs.append(f"{n} should have been removed but is still defined")
                        elif not rem and got is None:
                            msgs.append(f"{n} should have been preserved but is undefined after sourcing the filtered text")
                        elif not rem and got != was:
                            msgs.append(f"{n} changed: was {was[:120]!r}, now {got[:120]!r}")
                    exp_v = sorted(set(base["ALLV"]) - {n for (s, n, _), r in zip(its, removed) if r and s != "func"})
                    exp_f = sorted(set(base["ALLF"]) - {n for (s, n, _), r in zip(its, removed) if r and s == "func"})
                    if st["ALLV"] != exp_v:
                        msgs.append(f"variables defined differ: extra {sorted(set(st['ALLV']) - set(exp_v))} missing {sorted(set(exp_v) - set(st['ALLV']))}")
                    if st["ALLF"] != exp_f:
                        msgs.append(f"functions defined differ: extra {sorted(set(st['ALLF']) - set(exp_f))} missing {sorted(set(exp_f) - set(st['ALLF']))}")
        cls = f"{flt[0]}|{kinds}|rm{sum(removed)}"
        classes[cls] = classes.get(cls, 0) + 1
        if msgs:
            viol.append(
                {
                    "defs": [list(it) for it in its],
                    "filter": [flt[0], list(flt[1]), list(flt[2]), flt[3], flt[4]],
                    "removed": removed,
                    "frags": frags,
                    "msg": "; ".join(msgs)[:900],
                }
            )
    return len(plan), classes, viol, skipped


# ----------------------------------------------------------------------------------------------- tasks
def tasks(tier):
    its = items(tier)
    out = [("selftest", tier, 0)]
    out += [("pairs", tier, i) for i in range(len(its))]
    if tier == "thorough":
        core = core_items()
        out += [("triples", tier, i, j) for i in range(len(core)) for j in range(len(core)) if j != i]
    return out


def _names_clash(its):
    names = [n for _, n, _ in its]
    return len(set(names)) != len(names)


def work(task):
    kind, tier = task[0], task[1]
    sh = Shell()
    evals = 0
    classes = {}
    viol = []
    samples = []
    skipped = 0
    ndumps = 0
    try:
        if kind == "selftest":
            return _selftest(sh, tier)
        if kind == "pairs":
            its = items(tier)
            first = its[task[2]]
            if tier == "quick":
                core = core_items()
                others = its if first in core else [o for o in its if o in core]
            else:
                others = its
            dumps = [[first]] + [[first, o] for o in others]
        else:
            core = core_items()
            a, b = core[task[2]], core[task[3]]
            dumps = [[a, b, c] for c in core]
        for d in dumps:
            if _names_clash(d):
                continue
            ndumps += 1
            e, c, v, s = check_dump(sh, d)
            evals += e
            skipped += s
            for k, n in c.items():
                for kk in (_coarse(k), "kinds|" + "+".join(sorted(k.split("|")[1].split("+")))):
                    classes[kk] = classes.get(kk, 0) + n
            viol.extend(v)
        if dumps:
            d = dumps[min(len(dumps) - 1, 3)]
            if not _names_clash(d):
                samples.append({"dump": "".join(sh.fragment(*it) for it in d)[:300], "filters": [f[0] for f in filters_for(d)]})
    finally:
        sh.close()
    return {
        "evals": evals,
        "classes": classes,
        "viol": _minimise(viol),
        "samples": samples,
        "counters": {"dumps": ndumps, "skipped_arguable": skipped, "bash_runs": sh.bash_runs},
    }


def _coarse(cls):
    """filter kind | removed count (the kinds of definitions are counted separately to keep the number of names small)"""
    f, kinds, rm = cls.split("|")
    return f + "|" + rm


def _minimise(viol):
    # cases no classifier explains first, then smallest first; the runner caps the list per task
    return sorted(
        viol,
        key=lambda c: (any(f(c) for f in CLASSIFIERS.values()), len(c["defs"]), sum(map(len, c["frags"])), c["filter"][0]),
    )


def _selftest(sh, tier):
    """(1) concatenated fragments == what one multi-name declare prints; (2) determinism of a state evaluation."""
    try:
        vs = [(n, s) for n, s, st in VARS if "decl" in st]
        src = "\n".join(s for _, s in vs) + "\n" + "\n".join(s for _, s in FUNCS) + "\n"
        script = 'eval "$1" || exit 9; shift; __k=$1; shift; declare -p -- "${@:1:$__k}"; declare -f -- "${@:$((__k+1))}"'
        p = subprocess.run(
            _BASH + ["-c", script, "multi", src, str(len(vs))] + [n for n, _ in vs] + [n for n, _ in FUNCS],
            capture_output=True,
            cwd=sh.dir,
            stdin=subprocess.DEVNULL,
            timeout=120,
        )
        multi = p.stdout.decode("utf-8")
        concat = "".join(sh.fragment("decl", n, s) for n, s in vs) + "".join(sh.fragment("func", n, s) for n, s in FUNCS)
        if p.returncode != 0 or p.stderr or multi != concat:
            raise AssertionError(
                f"harness: multi-name declare output differs from concatenated fragments (rc={p.returncode}, stderr={p.stderr[:300]!r})"
            )
        its = items(tier)
        a = sh.states(["".join(sh.fragment(*it) for it in its[:3])], [n for s, n, _ in its[:3] if s != "func"], [])
        sh.state_cache.clear()
        b = sh.states(["".join(sh.fragment(*it) for it in its[:3])], [n for s, n, _ in its[:3] if s != "func"], [])
        if a != b:
            raise AssertionError("harness: state evaluation is not deterministic")
    finally:
        sh.close()
    return {"evals": 1, "classes": {}, "viol": [], "samples": [], "counters": {"bash_runs": sh.bash_runs}}


def replay(case):
    sh = Shell()
    try:
        its = [tuple(x) for x in case["defs"]]
        e, c, v, s = check_dump(sh, its, only_filter=case["filter"])
        return [x["msg"] for x in v]
    finally:
        sh.close()


# ----------------------------------------------------------------------------------------------- classifiers
_HEREDOC_OP = re.compile(r"(?<!<)<<(-?)\s*(['\"]?)(\w+)\2")


def _heredoc_lookalike(dump):
    """a here-document whose body holds, before the real delimiter line, a line that pkgcore's search accepts as the
    delimiter although bash does not: the word indented by blanks (or by tabs without <<-) and/or followed by ; } ) CR"""
    lines = dump.split("\n")
    for i, line in enumerate(lines):
        for m in _HEREDOC_OP.finditer(line):
            dash, word = m.group(1) == "-", m.group(3)
            for body in lines[i + 1 :]:
                real = (body.lstrip("\t") if dash else body) == word
                if real:
                    break
                if re.match(r"[ \t]*" + re.escape(word) + r"(?=[;\r})]|$)", body):
                    return True
    return False


def _two_heredocs(dump):
    return any(len(_HEREDOC_OP.findall(line)) >= 2 for line in dump.split("\n"))


def _quoted_brace_in_expansion(dump):
    """${ ... "}" ... } or ${ ... '}' ... }: a quoted closing brace inside a parameter expansion"""
    return re.search(r"\$\{[^}\"'\n]*[\"']\}[\"']", dump) is not None


def _removed_function_with_redirection(case):
    """a function whose closing brace line carries redirections (`} > file`) is among the removed definitions"""
    return any(
        style == "func" and rem and re.search(r"\n\} +\S[^\n]*\n$", frag) is not None
        for (style, _n, _s), rem, frag in zip(case["defs"], case["removed"], case["frags"])
    )


def _dump(case):
    return "".join(case["frags"])


CLASSIFIERS = {
    "quoted-brace-in-parameter-expansion": lambda c: _quoted_brace_in_expansion(_dump(c)),
    "heredoc-delimiter-lookalike-line": lambda c: _heredoc_lookalike(_dump(c)),
    "two-heredocs-on-one-command": lambda c: _two_heredocs(_dump(c)),
    "function-redirection-left-behind": lambda c: _removed_function_with_redirection(c),
}
