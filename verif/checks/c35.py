"""C35 The Python/daemon command protocol never deadlocks or desynchronizes.

Decided on a model (models/ebd.pml, explored exhaustively by spin) that is bound to the code
both ways: every history-distinct path of the model is replayed against a real
EbuildProcessor + real bash daemon and the recorded line trace must equal the path
(model -> implementation); traces of ordinary real sessions must be accepted by the model
(implementation -> model).
"""

import json
import os

PROPERTY = "C35"
LEVEL = "model_checking"
ENGINE = "proto"
TECHNIQUE = "spin exhaustive safety search of a two-process Promela model + exhaustive trail replay on the real Python/bash pair"
RULE = (
    "Promela model of EbuildProcessor/run_generic_phase and the bash daemon loops joined by two FIFO line channels; "
    "reply strings are read from both source files, two behaviours are measured on the real pair. spin explores every "
    "interleaving (states/transitions from pan). Every history-distinct model path (pan -e -c0, one trail per choice "
    "history) is turned into Python calls + a generated ebuild and run on a real daemon; the hook trace abstracted to "
    "message types must equal the path. A violation is a model path that raises a ghost flag (reply consumed by another "
    "command, acknowledged reply rejected, line accepted after an unknown command) or deadlocks AND is reproduced "
    "line by line by the real pair, or any path the real pair does not reproduce, or a real session the model rejects. "
    "A class is (request, daemon events, outcome)."
)
ASSUMPTIONS = [
    "Excl: a SIGTERM notice read by Python before the daemon process has exited (the harness hands the notice over after the exit; the other order only changes whether one more 'alive' is written to a dying daemon)",
    "Excl: ebuilds that run helpers concurrently (dobin a & dobin b); phases are sequential programs",
    "Excl: sandboxed/userpriv daemons and the request_sandbox_summary exchange (no sandbox binary in this environment)",
    "Excl: daemon deaths that Python observes while the daemon is still exiting after an unknown Python command or an idle-time signal (the harness waits for the exit, then issues the next request)",
    "phase requests use the setup phase (filter_env helper, request_inherit, request_bashrcs prologue) through ebd.run_generic_phase with the session's processor; helper requests are best_version calls; no profile bashrcs",
    "the 10 s wall-clock timer of is_responsive never expires while a reply is on its way (untimed model; the harness stretches the timer so machine load cannot fire it)",
    "channel capacity 4 lines in the model; real pipes hold 64 KiB, no modelled exchange has more than 8 short lines in flight",
    "free-form die output and metadata key lines are collapsed to one line each before traces are compared",
    "Excl: inherit inside an enumerated gen_ebuild_env run (pkgcore adds a QA notice line to the captured stderr there, which only changes how many stale lines a failing run leaves); the env-dump ordinary session covers inherit + gen_ebuild_env",
]
BOUNDS = {
    "quick": "<=2 Python requests per session: first from all 12 request kinds x daemon-side event scripts (<=2 events + terminal per phase/metadata run; phase events: helper ok/error, unknown command, kill -TERM/-INT, nonfatal die -n), second from the 9 control requests; channel capacity 4; every model session replayed on the real pair; 8 ordinary real sessions checked against the model",
    "thorough": "<=2 Python requests per session, both from all 12 request kinds x daemon-side event scripts (<=2 events + terminal); channel capacity 4; every model session replayed on the real pair; 8 ordinary real sessions",
}
MAXTASKSPERCHILD = 1
CHUNK = {"quick": 12, "thorough": 24}

FLAG_NAMES = {1: "stale", 2: "text", 4: "afterr"}


def _defs(tier):
    from verif.engines import proto

    facts = proto.facts()
    defs = proto.eq_flags(facts["pairs"]) + [
        "NREQ=2",
        f"FULLREQ={1 if tier == 'quick' else 2}",
        "NEV=2",
        f"FAIL_EXTRA={facts['fail_extra']}",
        f"SHUTDOWN_KILLS={facts['shutdown_kills']}",
    ]
    return facts, defs


def SETUP(tier):
    from verif.engines import proto

    import signal

    facts, defs = _defs(tier)
    proto.ensure_build(defs, tag="safety")
    proto.trails(defs)
    import pkgcore.ebuild.processor  # noqa: F401  (installs its SIGTERM handler on import ...)

    signal.signal(signal.SIGTERM, signal.SIG_DFL)  # ... which must not be inherited by the pool workers


def tasks(tier):
    from verif.engines import proto

    facts, defs = _defs(tier)
    tr = proto.trails(defs)
    n = len(tr["trails"])
    out = [("model", tier)]
    c = CHUNK[tier]
    flt = os.environ.get("VERIF_C35_FILTER")  # debugging aid only (mutant demonstrations): replay matching sessions
    if flt:
        idx = [i for i, t in enumerate(tr["trails"]) if flt in json.dumps(t["session"])]
        out += [("replay-list", tier, idx[j : j + 4]) for j in range(0, len(idx), 4)]
        return out + [("accept", tier, i) for i in range(len(ORDINARY))]
    out += [("replay", tier, i, min(i + c, n)) for i in range(0, n, c)]
    out += [("accept", tier, i) for i in range(len(ORDINARY))]
    return out


# ---------------------------------------------------------------- model -> implementation

EXC_OF = {
    "1": ("EbdError",),
    "2": ("KeyboardInterrupt",),
    "3": ("UnhandledCommand", "GenericBuildError"),
    "4": ("InternalError", "GenericBuildError"),
    "5": ("ProcessorError",),
    "6": ("IpcCommandError",),
    "7": ("RuntimeError", "OSError", "BrokenPipeError", "GenericBuildError"),
    "8": ("GenericBuildError",),
}


def atoms_of(trail):
    """Violation atoms of a model path: ghost flags raised (with where) and deadlock."""
    out = []
    for v in trail.get("viols", []):
        out.append(v)
    if trail["deadlock"]:
        out.append(["deadlock", trail.get("pyblock", "?")])
    return out


def _compare(variant, session, real, r):
    msgs = []
    ev = variant["events"]
    if real != ev:
        i = 0
        while i < min(len(real), len(ev)) and real[i] == ev[i]:
            i += 1
        msgs.append(
            f"real pair diverges from model path at event {i}: model {ev[max(0,i-1):i+3]} real {real[max(0,i-1):i+3]} "
            f"(session {session}; real outcomes {r['outcomes']}, deadlock {r['deadlock']})"
        )
    if bool(r["deadlock"]) != bool(variant["deadlock"]):
        msgs.append(
            f"deadlock disagreement: model {'deadlocks' if variant['deadlock'] else 'terminates'}, "
            f"real pair {r['deadlock'] or 'terminates'} (session {session})"
        )
    if not msgs and not variant["deadlock"] and variant["end"]:
        xc = variant["end"].get("xc", "0")
        last = r["outcomes"][-1] if r["outcomes"] else None
        if xc != "0":
            if not (last and last[1] == "exc" and last[2] in EXC_OF.get(xc, ())):
                msgs.append(f"model ends with exception class {xc}, real session outcomes {r['outcomes']} (session {session})")
        elif last and last[1] == "exc" and not (last[2] == "ProcessorError" and last[0] in ("genmeta", "genenv")):
            msgs.append(f"model ends normally, real session raised {last} (session {session})")
    return msgs


def check_trail(pair, pairs, trail):
    """Run one model session on the real pair; the real trace must equal one of the session's model paths.
    Returns (matched variant or None, messages, real_abstract, raw result)."""
    from verif.engines import proto

    r = pair.run_session([tuple(x) for x in trail["session"]])
    real = proto.abstract(r["trace"], pairs)
    variants = trail.get("variants") or [trail]
    first = None
    for v in variants:
        msgs = _compare(v, trail["session"], real, r)
        if not msgs:
            return v, [], real, r
        first = first or msgs
    return None, first, real, r


def _minimal_session(session, atom):
    """Prefix of the session up to the request in which the atom arose."""
    if atom[0] == "deadlock":
        return session
    n = int(atom[1])
    return session[:n]


def work(task):
    from verif.engines import proto

    kind, tier = task[0], task[1]
    facts, defs = _defs(tier)
    pairs = facts["pairs"]
    if kind == "model":
        res = proto.run_safety(defs)
        tr = proto.trails(defs)
        for k in ("assert", "deadlock"):
            if not res[k]["complete"]:
                raise RuntimeError(f"spin search incomplete: {res[k]}")
        if not tr["pan"]["complete"]:
            raise RuntimeError(f"spin trail enumeration incomplete: {tr['pan']}")
        flagged = sum(1 for t in tr["trails"] if any(v["viols"] for v in t["variants"]))
        dead = sum(1 for t in tr["trails"] if any(v["deadlock"] for v in t["variants"]))
        # the two builds must tell the same story
        if (res["assert"]["errors"] > 0) != (flagged > 0) or (res["deadlock"]["errors"] > 0) != (dead > 0):
            raise RuntimeError(f"safety build and enumeration build disagree: {res} flagged={flagged} deadlocks={dead}")
        classes = {
            "model:ghost-flag-paths" if flagged else "model:no-ghost-flag": 1,
            "model:deadlock-paths" if dead else "model:no-deadlock": 1,
        }
        viol = []
        return {
            "evals": res["assert"]["states"],
            "classes": classes,
            "viol": viol,
            "samples": [{"pan_safety": res["assert"], "pan_enum": tr["pan"], "paths": len(tr["trails"]), "facts": facts}],
            "counters": {
                "states": res["assert"]["states"],
                "transitions": res["assert"]["transitions"],
                "model_paths": len(tr["trails"]),
                "model_paths_flagged": flagged,
                "model_paths_deadlock": dead,
                "sessions_with_timing_variants": len(tr["ambiguous"]),
                "max_depth": res["assert"]["depth"],
                "traces_validated_against_impl": 0,
            },
        }
    if kind in ("replay", "replay-list"):
        alltr = proto.trails(defs)["trails"]
        tr = alltr[task[2] : task[3]] if kind == "replay" else [alltr[i] for i in task[2]]
        pair = proto.RealPair()
        classes, viol, samples = {}, [], []
        ok = 0
        try:
            for t in tr:
                v, msgs, real, r = check_trail(pair, pairs, t)
                for name, devs in t["session"]:
                    c = name + ("(" + ",".join(devs) + ")" if devs else "")
                    classes[c] = classes.get(c, 0) + 1
                if v is None:
                    viol.append({"kind": "conformance", "session": t["session"], "msg": msgs[0]})
                    classes["end:mismatch"] = classes.get("end:mismatch", 0) + 1
                    continue
                end = "deadlock" if v["deadlock"] else "xc" + v["end"]["xc"]
                classes["end:" + end] = classes.get("end:" + end, 0) + 1
                ok += 1
                for atom in atoms_of(v):
                    viol.append(_atom_case(t["session"], v, atom))
                if len(samples) < 1:
                    samples.append({"session": t["session"], "trace": real[:12]})
        finally:
            pair.close()
        return {"evals": len(tr), "classes": classes, "viol": viol, "samples": samples,
                "counters": {"traces_validated_against_impl": ok, "states": 0, "transitions": 0}}  # fmt: skip
    if kind == "accept":
        i = task[2]
        name, fn = ORDINARY[i]
        pair = proto.RealPair()
        try:
            recs, nreq = fn(pair)
        finally:
            pair.close()
        obs = proto.abstract(recs, pairs)
        okk, st = proto.accepts(obs, defs, nreq)
        viol = []
        if not okk:
            viol.append({"kind": "not-accepted", "ordinary": name, "observed": obs,
                         "msg": f"trace of real session '{name}' is not a behaviour of the model: {obs}"})  # fmt: skip
        return {"evals": 1, "classes": {"ordinary:" + name: 1}, "viol": viol, "samples": [{"ordinary": name, "trace": obs[:16]}],
                "counters": {"real_sessions_accepted": int(okk), "traces_validated_against_impl": int(okk), "states": 0, "transitions": 0}}  # fmt: skip
    raise ValueError(task)


def _atom_case(session, t, atom):
    sess = _minimal_session(session, atom)
    what = {
        "stale": "a line caused by an earlier command was consumed as the reply to / command of a later one",
        "text": "the daemon acknowledged the request but Python's comparison string differs",
        "afterr": "a line was accepted as a reply after an unknown command had ended the request",
        "deadlock": "both sides wait forever",
    }[atom[0]]
    case = {"kind": "model-violation", "atom": atom, "session": sess, "msg": f"{atom}: {what}; session {sess}"}
    if atom[0] == "deadlock":
        ev = t["events"]
        last = max((i for i, e in enumerate(ev) if e == "> ALIVE"), default=max(0, len(ev) - 2))
        case["tail"] = ev[last:]  # from the last alive probe to the point where both sides stop
    return case


def replay(case):
    from verif.engines import proto

    tier = case.get("tier", "quick")
    facts, defs = _defs(tier)
    pairs = facts["pairs"]
    if case["kind"] == "not-accepted":
        fn = dict(ORDINARY)[case["ordinary"]]
        pair = proto.RealPair()
        try:
            recs, nreq = fn(pair)
        finally:
            pair.close()
        obs = proto.abstract(recs, pairs)
        okk, st = proto.accepts(obs, defs, nreq)
        return [] if okk else [f"trace of real session '{case['ordinary']}' is not a behaviour of the model: {obs}"]
    # conformance / model-violation: find the model paths of this session in the current model
    sess = case["session"]
    cands = []
    for tr_tier in ("quick", "thorough"):
        tr_defs = _defs(tr_tier)[1]
        d = proto.ensure_build(list(tr_defs) + ["ENUM"], tag="enum") if tr_tier == "quick" else None
        if tr_tier == "thorough":
            d = os.path.join(proto.SHM, "verif-C35-build-enum-" + proto.model_hash(list(tr_defs) + ["ENUM"]))
            if not os.path.exists(os.path.join(d, "trails.json")):
                continue
        for t in proto.trails(tr_defs)["trails"]:
            if t["session"][: len(sess)] == sess:
                cands.append(t)
        if cands:
            break
    if not cands:
        return [f"session {sess} is not a session of the current model"] if case["kind"] == "conformance" else []
    pair = proto.RealPair()
    try:
        if case["kind"] == "conformance":
            t = min(cands, key=lambda t: len(t["session"]))
            v, msgs, real, r = check_trail(pair, pairs, t)
            return msgs if v is None else []
        cands = [t for t in cands if any(case["atom"] in atoms_of(v) for v in t["variants"])]
        if not cands:
            return []  # the model (rebuilt from the current sources) no longer has this violation
        t = min(cands, key=lambda t: (len(t["session"]), len(t["events"])))
        v, msgs, real, r = check_trail(pair, pairs, t)
        if v is None:
            return ["model path with the violation is not reproduced by the real pair: " + msgs[0]]
        if case["atom"] not in atoms_of(v):
            return []
        return [case["msg"] + f" -- reproduced on the real pair, trace tail {real[-4:]}" + (f", certified deadlock {r['deadlock']}" if r["deadlock"] else "")]
    finally:
        pair.close()


# ---------------------------------------------------------------- implementation -> model

def _ordinary(pair, body, nreq):
    """Run `body(ebp)` on a fresh pooled processor with the trace hook on; returns records."""
    import signal

    processor = pair.processor
    open(pair.trace_path, "w").close()
    os.environ["PKGCORE_VERIF_TRACE"] = pair.trace_path
    del processor.active_ebp_list[:]
    del processor.inactive_ebp_list[:]
    ebp = processor.request_ebuild_processor(userpriv=False, sandbox=False, fd_pipes={0: pair.devnull, 1: pair.devnull, 2: pair.devnull})
    pid = ebp.pid
    processor._verif_c35_pid = pid
    if not pair._wait_idle(ebp, pid, limit=300.0):
        pair._cleanup(ebp, pid)
        raise RuntimeError("daemon did not reach its main loop")
    open(pair.trace_path, "w").close()
    try:
        try:
            body(ebp, pid)
        except BaseException as e:
            if not isinstance(e, (processor.ProcessorError, KeyboardInterrupt, SystemExit)) and type(e).__name__ not in (
                "GenericBuildError", "UnhandledCommand", "InternalError", "IpcCommandError", "RuntimeError"):  # fmt: skip
                raise
    finally:
        processor._verif_c35_pid = None
        os.environ.pop("PKGCORE_VERIF_TRACE", None)
        with open(pair.trace_path) as f:
            raw = f.read().splitlines()
        pair._cleanup(ebp, pid)
    return [(line[0], eval(line[1:], {"__builtins__": {}})) for line in raw], nreq


def _o_regen(pair):
    def body(ebp, pid):
        ebp.get_keys(pair._pkg(pair.meta_ebuild(["inherit", "ok"])), pair.ecache)
        ebp.get_keys(pair._pkg(pair.meta_ebuild(["ok"])), pair.ecache)
        assert ebp.is_responsive

    return _ordinary(pair, body, 3)


def _o_env(pair):
    def body(ebp, pid):
        env = ebp.get_ebuild_environment(pair._pkg(pair.meta_ebuild(["inherit", "ok"])), pair.ecache)
        assert "foo_fn" in env
        ebp.shutdown_processor()

    return _ordinary(pair, body, 2)


def _o_phase(pair):
    def body(ebp, pid):
        pair._request(ebp, pid, "phase", ["ipc_ok", "ipc_ok", "ok"])
        ebp.shutdown_processor()

    return _ordinary(pair, body, 2)


def _o_die(pair):
    def body(ebp, pid):
        pair._request(ebp, pid, "phase", ["ipc_ok", "die"])

    return _ordinary(pair, body, 1)


def _o_fail(pair):
    def body(ebp, pid):
        try:
            pair._request(ebp, pid, "phase", ["exit1"])
        finally:
            pass

    return _ordinary(pair, body, 1)


def _o_preload(pair):
    def body(ebp, pid):
        # the public batched entry point: two eclasses, async, then a synchronous request
        import types

        ec = types.SimpleNamespace(eclasses={
            "foo": types.SimpleNamespace(path=pair.good_eclass),
            "foo2": types.SimpleNamespace(path=pair.good_eclass),
        })  # fmt: skip
        ebp.get_keys(pair._pkg(pair.meta_ebuild(["ok"])), pair.ecache)  # caches the metadata path
        ebp.preload_eclasses(ec, async_req=True)
        # the batch is still outstanding when generic_handler starts
        ebp.get_keys(pair._pkg(pair.meta_ebuild(["ok"])), pair.ecache)

    return _ordinary(pair, body, 4)


def _o_sigterm(pair):
    def body(ebp, pid):
        assert ebp.is_responsive
        pair._request(ebp, pid, "sigterm", [])
        ebp.get_keys(pair._pkg(pair.meta_ebuild(["ok"])), pair.ecache)

    return _ordinary(pair, body, 3)


def _o_metafail(pair):
    def body(ebp, pid):
        try:
            ebp.get_keys(pair._pkg(pair.meta_ebuild(["fail1"])), pair.ecache)
        except pair.processor.ProcessorError:
            pass
        ebp.get_keys(pair._pkg(pair.meta_ebuild(["ok"])), pair.ecache)

    return _ordinary(pair, body, 2)


ORDINARY = [
    ("metadata-regen", _o_regen),
    ("env-dump", _o_env),
    ("phase-with-helpers", _o_phase),
    ("phase-die", _o_die),
    ("phase-fails", _o_fail),
    ("batched-preload-then-sync", _o_preload),
    ("sigterm-to-daemon", _o_sigterm),
    ("metadata-fails-then-regen", _o_metafail),
]


# ---------------------------------------------------------------- known-finding classifiers

def _is_atom(case, kind):
    return case.get("kind") == "model-violation" and case.get("atom", [None])[0] == kind


def _clear_text(case):
    """clear_preloaded_eclasses: Python expects a different string than the daemon writes."""
    return _is_atom(case, "text") and case["atom"][2:] == ["CLEARED_X", "CLEARED_D"] and case["session"][-1][0] == "clear"


def _multiline_stale(case):
    """A stale line is consumed after a gen_metadata/gen_ebuild_env whose ebuild failed with multi-line stderr."""
    if not _is_atom(case, "stale"):
        return False
    n = int(case["atom"][1])
    return any(name in ("genmeta", "genenv") and "fail2" in devs for name, devs in case["session"][: n - 1])


def _shutdown_hang(case):
    """shutdown_processor() waits for a live daemon that failed the alive probe without killing it."""
    tail = case.get("tail", [])
    return (
        _is_atom(case, "deadlock")
        and case["atom"][1] == "waitpid"
        and len(tail) >= 2
        and tail[0] == "> ALIVE"  # the last thing Python wrote is the alive probe of shutdown_processor ...
        and all(e.startswith("< ") for e in tail[1:])  # ... it read the answer(s) ...
        and tail[1:] != ["< YEP_D"]  # ... which were not the single "yep!" that makes it send shutdown_daemon
    )


CLASSIFIERS = {
    "clear-preloaded-reply-text": _clear_text,
    "multiline-phases-failed-leaves-stale-lines": _multiline_stale,
    "shutdown-waits-for-unresponsive-daemon": _shutdown_hang,
}
