"""C36 fetching returns only verified files and uses every allowed attempt.

Seam: the real ``pkgcore.fetch.custom.fetcher.fetch`` on a scratch distdir.  ``spawn_bash`` in the namespace of
``pkgcore.fetch.custom`` is replaced by a function that applies the next *scripted outcome* to the distdir and records
what it was asked to run (which command, which URI, what was on disk at that instant).  The tree of all outcome
sequences is walked depth first: a run whose script is exhausted is cut short and branched over the whole outcome
alphabet, so every sequence the fetcher can actually consume is executed exactly once.  A second, small pass runs the
same scripts through the real ``spawn_bash`` with a bash fetch command to validate the seam.

The oracle (reference model A10) is written from the property statement and judges the *observed trace*
(initial file, file left after each invocation, result); it never calls pkgcore or snakeoil (hashes via hashlib).
"""

import hashlib
import os
import shutil
import tempfile

PROPERTY = "C36"
LEVEL = "exploration"
ENGINE = "enum"
TECHNIQUE = (
    "exhaustive depth-first enumeration of fetcher outcome sequences (scripted spawn_bash) against a trace oracle "
    "derived from the property statement"
)
RULE = (
    "for every target kind (size+sha256+sha512, the same with one inconsistent hash, sha256 only, size only, no "
    "checksums), fetcher configuration (distinct resume command; for sized targets also resume_command=None, where the "
    "fetch command doubles as resume command), attempt budget, number of URIs and pre-existing distfile state, every sequence of per-invocation "
    "outcomes (file left as is / emptied / proper prefix / oversized / right size wrong content / correct / next 12-byte "
    "chunk appended to whatever is on disk, each with "
    "exit status 0, exit status 1 or death by a signal -- spawn status 2304 = SIGKILL << 8) that the fetcher can consume is executed against the real fetch(); the observed trace is judged "
    "for safety (returned path => file has the size and every checksum; for a target without checksums: the file exists "
    "and was not left by an invocation that did not exit 0), liveness (a correct file left by any allowed "
    "invocation is returned), budget (a failing fetch with only retryable states used min(attempts, URIs) invocations, "
    "never more than attempts) and resume (a too-small file is kept untouched and the resume command is the next one "
    "invoked).  A class is (target kind, result kind, resume used), plus the number of invocations consumed; distinct_nontrivial counts classes observed."
)
ASSUMPTIONS = [
    "Excl: liveness and budget once a verification point has been offered a checksum-failing file (oversized, right "
    "size with a wrong hash, any mismatch on a target without a size): the code aborts with ChksumFailure by explicit "
    "design; only safety is judged from there on",
    "Excl: an empty file for a target without a size checksum (the statement does not say whether it is a failed "
    "checksum or a retryable download); treated like a checksum-failing file: safety only from there on",
    "relied upon: for targets without checksums an invocation that did not exit 0 (non-zero exit status or killed by a "
    "signal) leaves nothing usable -- the documented rule in fetch/custom.py and its unit tests, since _verify cannot "
    "detect a truncated download there; returning the file such an invocation left is a safety violation, and a file "
    "that exists after an exit-0 invocation (or pre-exists) satisfies safety for these targets",
    "death by signal is reported by snakeoil's spawn as signal << 8 (2304 for SIGKILL); the real-bash pass checks this encoding with a real `kill -KILL $$`",
    "Excl: which command (fetch or resume) is used when no file exists, and the order in which URIs are consumed "
    "(statement silent); each invocation is assumed to consume one URI, so min(attempts, URIs) is the invocation budget",
    "a 0-byte file of a target with a size is not counted as a 'resumable partial file' (resume clause judged only for a non-empty proper prefix)",
    "with resume_command=None the fetch command is the resume command, so only 'the too-small file is left in place' is "
    "judged there (which of the two identical commands ran cannot be observed)",
    "the attempt budget is the number of fetch-command invocations; a verification follows every invocation including the last",
    "userpriv=False; distdir on tmpfs; file contents are 35 bytes; attempts 1-4, URIs 1-4",
]
BOUNDS = {
    "quick": "5 target kinds x attempts 1-3 x URIs 1-3 x 6 pre-existing states x all consumable outcome sequences "
    "(21 outcomes per invocation; 9 for targets without checksums), sized targets also with resume_command=None; real-bash pass: 3 target kinds x attempts 2 x URIs 2 x pre {absent, partial} with a 5-outcome alphabet incl. one fetch command killed by SIGKILL, plus an appending (`wget -c`-like) fetcher without resume command, attempts 3, URIs 3",
    "thorough": "5 target kinds x attempts 1-4 x URIs 1-4 x 6 pre-existing states x all consumable outcome sequences; "
    "real-bash pass: 3 target kinds x attempts 1-2 x URIs 1-2 x pre {absent, partial, correct} with a 9-outcome alphabet incl. one fetch command killed by SIGKILL, plus an appending fetcher without resume command (attempts 2-3, URIs 3, pre {absent, partial})",
}

# ----------------------------------------------------------------------------------------------------------------
# alphabet
# ----------------------------------------------------------------------------------------------------------------
FILENAME = "dist-1.tar"
CORRECT = b"pkgcore C36 distfile payload 012345"
OTHER = b"some other payload, never on disk"  # only used to build the inconsistent target
BLOBS = {
    "absent": None,
    "empty": b"",
    "partial": CORRECT[: len(CORRECT) // 2],
    "corrupt": CORRECT[:-6] + b"XXXXXX",
    "oversize": CORRECT + b"-and-some-trailing-bytes",
    "correct": CORRECT,
}
assert len(BLOBS["corrupt"]) == len(CORRECT) and BLOBS["corrupt"] != CORRECT
STATES = ["absent", "empty", "partial", "corrupt", "oversize", "correct"]
# an outcome is (effect, exit status); effect "nothing" leaves the distdir as it is
EFFECTS = ["nothing", "empty", "partial", "corrupt", "oversize", "correct", "append"]
# "append": resumable progress -- the next CHUNK bytes of the correct content are appended to whatever is on disk
# (nothing is written once the file has reached the full length), so the file only ever becomes complete if partial
# files survive between invocations
CHUNK = 12
RESUME_MODES = ["distinct", "same"]  # "same": resume_command=None, the fetch command doubles as resume command
SIZED = ("size+2hash", "inconsistent", "size-only")
EFFECTS_NOCHK = ["nothing", "empty", "correct"]  # without checksums all non-empty contents are alike
KILLED = 9 << 8  # what snakeoil's spawn returns for a child killed by SIGKILL
STATUSES = (0, 1, KILLED)
TARGETS = ["size+2hash", "inconsistent", "hash-only", "size-only", "none"]


def _h(name, data):
    return int(hashlib.new(name, data).hexdigest(), 16)


def chksums_for(kind):
    if kind == "size+2hash":
        return {"size": len(CORRECT), "sha256": _h("sha256", CORRECT), "sha512": _h("sha512", CORRECT)}
    if kind == "inconsistent":  # no file can satisfy both hashes
        return {"size": len(CORRECT), "sha256": _h("sha256", CORRECT), "sha512": _h("sha512", OTHER)}
    if kind == "hash-only":
        return {"sha256": _h("sha256", CORRECT)}
    if kind == "size-only":
        return {"size": len(CORRECT)}
    if kind == "none":
        return {}
    raise ValueError(kind)


def outcomes_for(kind):
    effs = EFFECTS_NOCHK if kind == "none" else EFFECTS
    return [(e, x) for e in effs for x in STATUSES]


# ----------------------------------------------------------------------------------------------------------------
# reference model (A10): classification of a file against a target, written from the statement
# ----------------------------------------------------------------------------------------------------------------
def classify(kind, data, exit_status=0):
    """'absent' | 'small' (too small: retry, resumable) | 'good' | 'bad' (checksum failing) | 'arguable'.

    size first, then every hash."""
    chk = chksums_for(kind)
    if data is None:
        return "absent"
    if not chk:
        if exit_status != 0:
            return "absent"  # documented rule: nothing usable was left
        return "good" if data else "arguable"
    if "size" in chk:
        if len(data) < chk["size"]:
            return "small"
        if len(data) > chk["size"]:
            return "bad"
    elif not data:
        return "arguable"
    for name, val in chk.items():
        if name != "size" and _h(name, data) != val:
            return "bad"
    return "good"


def judge(kind, attempts, nuris, trace, result, final_data, expected_path, rmode="distinct"):
    """trace = {"init": bytes|None, "inv": [{"cmd","uri","before","after","exit"}...]};
    result = ("path", p) | ("none",) | ("error", exception class name).  Returns [(clause, message)]."""
    msgs = []
    inv = trace["inv"]
    k = len(inv)
    budget = min(attempts, nuris)
    cls = [classify(kind, trace["init"])] + [classify(kind, i["after"], i["exit"]) for i in inv]
    returned = result[0] == "path"
    if k > attempts:
        msgs.append(("budget", f"{k} invocations with attempts={attempts}"))
    # safety
    if returned:
        if result[1] != expected_path:
            msgs.append(("safety", f"returned {result[1]!r}, not the distdir path"))
        fin = classify(kind, final_data)
        if kind == "none":
            if final_data is None:
                msgs.append(("safety", "returned a path but no file exists there"))
            elif inv and inv[-1]["exit"] != 0 and inv[-1]["after"] is not None and final_data == inv[-1]["after"]:
                how = "was killed by a signal" if inv[-1]["exit"] > 255 else f"exited {inv[-1]['exit']}"
                msgs.append(("safety", f"target has no checksums and the last invocation {how} (status {inv[-1]['exit']}), yet the file it left was returned as fetched"))
        elif fin != "good":
            msgs.append(("safety", f"returned a path whose file is {fin} (size/checksums do not all match)"))
    # liveness / budget: only while no checksum-failing or arguable file has been offered
    clean = True
    for j, c in enumerate(cls):
        if c in ("bad", "arguable"):
            clean = False
            break
        if c == "good":
            if not returned:
                where = "the pre-existing file" if j == 0 else f"invocation {j} of {attempts} allowed"
                msgs.append(("liveness", f"{where} left a fully verified file but fetch reported {result}"))
            break
    if clean and "good" not in cls and not returned and k != budget:
        msgs.append(("budget", f"fetch failed after {k} invocations although min(attempts={attempts}, uris={nuris}) = {budget} were allowed and every state was retryable"))
    # resume: a non-empty proper prefix of a sized target is kept and resumed
    chk = chksums_for(kind)
    if "size" in chk:
        prev = trace["init"]
        for n, i in enumerate(inv, 1):
            if prev and len(prev) < chk["size"]:
                if i["before"] != prev:
                    msgs.append(("resume", f"too-small file was removed or altered before invocation {n}"))
                elif rmode == "distinct" and i["cmd"] != "resume":  # without a resume command the fetch command doubles as one
                    msgs.append(("resume", f"invocation {n} found a too-small file but ran the {i['cmd']} command"))
            prev = i["after"]
        if prev and len(prev) < chk["size"] and final_data != prev:
            msgs.append(("resume", "too-small file left by the last invocation was removed or altered"))
    return msgs


# ----------------------------------------------------------------------------------------------------------------
# harness
# ----------------------------------------------------------------------------------------------------------------
class _NeedMore(BaseException):
    pass


def _read(path):
    try:
        with open(path, "rb") as f:
            return f.read()
    except FileNotFoundError:
        return None


def _write_state(path, state):
    data = BLOBS[state]
    if data is None:
        try:
            os.unlink(path)
        except FileNotFoundError:
            pass
    else:
        with open(path, "wb") as f:
            f.write(data)


def _appended(data):
    data = data or b""
    if len(data) >= len(CORRECT):
        return data
    return data + CORRECT[len(data) : len(data) + CHUNK]


def _apply_effect(path, eff):
    if eff == "nothing":
        return
    if eff == "append":
        cur = _read(path)
        new = _appended(cur)
        if new != (cur or b"") or cur is None:
            with open(path, "ab") as f:
                f.write(new[len(cur or b"") :])
        return
    _write_state(path, eff)


def _uris(n):
    return tuple(f"http://mirror{i}.invalid/{FILENAME}" for i in range(1, n + 1))


def _result_of(call):
    from pkgcore.fetch import errors

    try:
        r = call()
    except errors.FetchError as e:
        return ("error", type(e).__name__)
    if r is None:
        return ("none",)
    return ("path", r)


def run_mock(root, kind, attempts, nuris, pre, seq, rmode="distinct"):
    """Execute one scripted run.  Returns None if the script was exhausted (caller branches), else (trace, result, final)."""
    from pkgcore.fetch import custom, fetchable

    distdir = os.path.join(root, "distdir")
    os.makedirs(distdir, exist_ok=True)
    path = os.path.join(distdir, FILENAME)
    _write_state(path, pre)
    trace = {"init": BLOBS[pre], "inv": []}
    script = list(seq)

    def fake_spawn(cmd, **kw):
        n = len(trace["inv"])
        if n >= len(script):
            raise _NeedMore()
        words = cmd.split()
        before = _read(path)
        eff, status = script[n]
        _apply_effect(path, eff)
        trace["inv"].append({"cmd": words[0], "uri": words[1], "before": before, "after": _read(path), "exit": status})
        return status

    f = custom.fetcher(
        distdir=distdir,
        command="fetch ${URI} ${DISTDIR}/${FILE}",
        resume_command="resume ${URI} ${DISTDIR}/${FILE}" if rmode == "distinct" else None,
        userpriv=False,
        attempts=attempts,
    )
    target = fetchable(FILENAME, uri=_uris(nuris), chksums=chksums_for(kind))
    saved = custom.spawn_bash
    custom.spawn_bash = fake_spawn
    try:
        result = _result_of(lambda: f.fetch(target))
    except _NeedMore:
        return None
    finally:
        custom.spawn_bash = saved
    return trace, result, _read(path), path


_SCRIPT = r"""#!/bin/bash
# scripted fetch command (bash builtins only): $1 ctl dir, $2 fetch|resume, $3 URI, $4 destination
ctl=$1; kind=$2; uri=$3; dest=$4
read -r n < "$ctl/count"; n=$((n + 1)); echo "$n" > "$ctl/count"
mapfile -t lines < "$ctl/script"
line=${lines[n-1]}
if [[ -z $line ]]; then : > "$ctl/needmore"; exit 99; fi
read -r eff status <<< "$line"
if [[ -e $dest ]]; then printf %s "$(< "$dest")" > "$ctl/before.$n"; fi
case $eff in
    nothing) ;;
    append)
        full=$(< "$ctl/blob.correct"); cur=""
        if [[ -e $dest ]]; then cur=$(< "$dest"); fi
        if (( ${#cur} < ${#full} )); then printf %s "${full:${#cur}:$(< "$ctl/chunk")}" >> "$dest"; fi ;;
    *) printf %s "$(< "$ctl/blob.$eff")" > "$dest" ;;
esac
if [[ -e $dest ]]; then printf %s "$(< "$dest")" > "$ctl/after.$n"; fi
echo "$kind $uri $status" >> "$ctl/log"
if (( status > 255 )); then kill -$((status >> 8)) $$; fi
exit "$status"
"""


def run_real(root, kind, attempts, nuris, pre, seq, rmode="distinct"):
    """Same as run_mock but through the real spawn_bash and a bash fetch command."""
    from pkgcore.fetch import custom, fetchable

    distdir = os.path.join(root, "distdir")
    ctl = os.path.join(root, "ctl")
    shutil.rmtree(ctl, ignore_errors=True)
    os.makedirs(ctl)
    os.makedirs(distdir, exist_ok=True)
    path = os.path.join(distdir, FILENAME)
    _write_state(path, pre)
    for s, data in BLOBS.items():
        if data is not None:
            with open(os.path.join(ctl, "blob." + s), "wb") as f:
                f.write(data)
    with open(os.path.join(ctl, "script"), "w") as f:
        f.write("".join(f"{e} {x}\n" for e, x in seq))
    with open(os.path.join(ctl, "count"), "w") as f:
        f.write("0\n")
    with open(os.path.join(ctl, "chunk"), "w") as f:
        f.write(f"{CHUNK}\n")
    with open(os.path.join(ctl, "fetch.bash"), "w") as f:
        f.write(_SCRIPT)
    fo = custom.fetcher(
        distdir=distdir,
        command=f"exec bash {ctl}/fetch.bash {ctl} fetch ${{URI}} ${{DISTDIR}}/${{FILE}}",
        resume_command=f"exec bash {ctl}/fetch.bash {ctl} resume ${{URI}} ${{DISTDIR}}/${{FILE}}" if rmode == "distinct" else None,
        userpriv=False,
        attempts=attempts,
    )
    target = fetchable(FILENAME, uri=_uris(nuris), chksums=chksums_for(kind))
    result = _result_of(lambda: fo.fetch(target))
    if os.path.exists(os.path.join(ctl, "needmore")):
        return None
    trace = {"init": BLOBS[pre], "inv": []}
    log = _read(os.path.join(ctl, "log")) or b""
    for n, line in enumerate(log.decode().splitlines(), 1):
        cmd, uri, status = line.split()
        trace["inv"].append(
            {
                "cmd": cmd,
                "uri": uri,
                "before": _read(os.path.join(ctl, f"before.{n}")),
                "after": _read(os.path.join(ctl, f"after.{n}")),
                "exit": int(status),
            }
        )
    return trace, result, _read(path), path


def check_one(root, mode, kind, attempts, nuris, pre, seq, rmode="distinct"):
    """-> None (script exhausted) or (violations [(clause,msg)], class name, trace summary)."""
    runner = run_mock if mode == "mock" else run_real
    out = runner(root, kind, attempts, nuris, pre, seq, rmode)
    if out is None:
        return None
    trace, result, final, path = out
    msgs = judge(kind, attempts, nuris, trace, result, final, path, rmode)
    k = len(trace["inv"])
    resumed = any(i["cmd"] == "resume" for i in trace["inv"])
    rk = result[0] if result[0] != "error" else result[1]
    if rmode == "same":
        size = chksums_for(kind).get("size")
        cont = size is not None and any(i["before"] and len(i["before"]) < size for i in trace["inv"])
        cname = f"{kind}:{rk}:{'no-resume-command:continued-a-partial' if cont else 'no-resume-command'}"
    else:
        cname = f"{kind}:{rk}:{'resume' if resumed else 'plain'}"
    return msgs, cname, k


def explore(root, mode, kind, attempts, nuris, pre, alphabet, rmode="distinct"):
    """Depth-first walk of every consumable outcome sequence."""
    evals = 0
    classes = {}
    viol = []
    stack = [()]
    maxdepth = 0
    while stack:
        seq = stack.pop()
        out = check_one(root, mode, kind, attempts, nuris, pre, seq, rmode)
        if out is None:
            if len(seq) >= attempts:  # more invocations than the budget: report instead of descending further
                viol.append(_case(mode, kind, attempts, nuris, pre, seq, "budget", f"more than {len(seq)} invocations with attempts={attempts}", rmode))
                continue
            for o in reversed(alphabet):
                stack.append(seq + (o,))
            continue
        msgs, cname, k = out
        evals += 1
        maxdepth = max(maxdepth, k)
        classes[cname] = classes.get(cname, 0) + 1
        classes[f"invocations={k}"] = classes.get(f"invocations={k}", 0) + 1
        if msgs:
            viol.append(_case(mode, kind, attempts, nuris, pre, seq, msgs[0][0], msgs[0][1], rmode))
    return evals, classes, viol, maxdepth


def _case(mode, kind, attempts, nuris, pre, seq, clause, msg, rmode="distinct"):
    return {
        "mode": mode,
        "resume": rmode,
        "target": kind,
        "attempts": attempts,
        "uris": nuris,
        "pre": pre,
        "seq": [list(o) for o in seq],
        "clause": clause,
        "msg": f"[{clause}] target={kind} resume_command={'distinct' if rmode == 'distinct' else None} attempts={attempts} uris={nuris} pre={pre} outcomes={[f'{e}/{x}' for e, x in seq]}: {msg}",
    }


# ----------------------------------------------------------------------------------------------------------------
# runner interface
# ----------------------------------------------------------------------------------------------------------------
REAL_ALPHA_Q = [("nothing", 1), ("partial", 1), ("corrupt", 0), ("correct", 0), ("correct", KILLED)]
REAL_ALPHA_SAME = [("append", 1), ("append", 0), ("correct", 0)]  # a `wget -c`-like fetcher without a resume command
REAL_ALPHA_T = REAL_ALPHA_Q + [("partial", 0), ("correct", 1), ("oversize", 0), ("empty", 1)]


def tasks(tier):
    amax = 3 if tier == "quick" else 4
    umax = 3 if tier == "quick" else 4
    out = []
    for kind in TARGETS:
        for a in range(1, amax + 1):
            for u in range(1, umax + 1):
                for pre in STATES:
                    out.append(("mock", tier, kind, a, u, pre, "distinct"))
                    if kind in SIZED:  # only a target with a size has resumable partial files
                        out.append(("mock", tier, kind, a, u, pre, "same"))
    # simplest first
    out.sort(key=lambda t: (t[3], t[4], TARGETS.index(t[2]), STATES.index(t[5]), t[6]))
    if tier == "quick":
        for kind in ("size+2hash", "hash-only", "none"):
            for pre in ("absent", "partial"):
                out.append(("real", tier, kind, 2, 2, pre, "distinct"))
        out.append(("real", tier, "size+2hash", 3, 3, "absent", "same"))
    else:
        for a in (2, 3):
            for pre in ("absent", "partial"):
                out.append(("real", tier, "size+2hash", a, 3, pre, "same"))
        for kind in ("size+2hash", "hash-only", "none"):
            for a in (1, 2):
                for u in (1, 2):
                    for pre in ("absent", "partial", "correct"):
                        out.append(("real", tier, kind, a, u, pre, "distinct"))
    return out


def _check_signal_encoding():
    """Seam validation: a really killed bash must be reported by the real spawn_bash as KILLED."""
    from snakeoil.process.spawn import spawn_bash

    got = spawn_bash("kill -KILL $$")
    if got != KILLED:
        raise RuntimeError(f"spawn_bash reports a SIGKILLed child as {got}, the scripted alphabet assumes {KILLED}")


def _mkroot():
    return tempfile.mkdtemp(dir="/dev/shm", prefix=f"verif-{PROPERTY}-{os.getpid()}-")


def work(task):
    mode, tier, kind, attempts, nuris, pre, rmode = task
    if mode == "mock":
        alphabet = outcomes_for(kind)
    elif rmode == "same":
        alphabet = REAL_ALPHA_SAME
        _check_signal_encoding()
    else:
        alphabet = REAL_ALPHA_Q if tier == "quick" else REAL_ALPHA_T
        if kind == "none":
            alphabet = [o for o in alphabet if o[0] in EFFECTS_NOCHK]
        _check_signal_encoding()
    root = _mkroot()
    try:
        evals, classes, viol, maxdepth = explore(root, mode, kind, attempts, nuris, pre, alphabet, rmode)
    finally:
        shutil.rmtree(root, ignore_errors=True)
    if mode == "real":
        merged = {}
        for k, v in classes.items():
            k = "real-bash:" + (k.split(":")[1] if ":" in k else k)
            merged[k] = merged.get(k, 0) + v
        classes = merged
    viol.sort(key=lambda c: (len(c["seq"]), c["seq"]))
    return {
        "evals": evals,
        "classes": classes,
        "viol": viol,
        "samples": [{"mode": mode, "target": kind, "resume_command": rmode, "attempts": attempts, "uris": nuris, "pre": pre, "runs": evals}],
        "counters": {"max_invocations": maxdepth, "real_bash_runs" if mode == "real" else "mock_runs": evals},
    }


def replay(case):
    root = _mkroot()
    try:
        seq = tuple(tuple(o) for o in case["seq"])
        out = check_one(root, case["mode"], case["target"], case["attempts"], case["uris"], case["pre"], seq, case.get("resume", "distinct"))
        if out is None:
            if len(seq) >= case["attempts"]:
                return [f"more than {len(seq)} invocations with attempts={case['attempts']}"]
            return []
        return [f"[{c}] {m}" for c, m in out[0]]
    finally:
        shutil.rmtree(root, ignore_errors=True)


def _final_attempt_not_verified(case):
    """The correct file is left by invocation number == attempts (the last one allowed) and the only complaint is
    liveness: fetch() never looks at the result of its last invocation."""
    seq = case.get("seq") or []
    if case.get("clause") != "liveness" or len(seq) != case.get("attempts") or not seq:
        return False
    kind = case["target"]
    eff, status = seq[-1]
    if kind == "none":
        return eff == "correct" and status == 0
    if kind == "size-only":
        return eff in ("correct", "corrupt")
    if kind == "inconsistent":
        return False
    return eff == "correct"


CLASSIFIERS = {"final-attempt-not-verified": _final_attempt_not_verified}
