"""C37 Bugzilla searches keep their meaning when rendered, combined (&, any_of) and batched.

Two independent interpreters are compared on every bug of a per-query synthetic universe:
 * parameter side: the real BugQuery is built from a JSON spec with the real constructors / any_of / & / paged,
   rendered with the real params(), and the (key, value) pairs are interpreted the way Bugzilla does: repeated simple
   parameters OR within a key and AND across keys; f<N>/o<N>/v<N>/n<N>/j<N> boolean charts read in slot order with
   OP..CP groups joined by j<N> (default AND).  While reading, every slot must be used once, every o/v/n/j must belong
   to a slot of the right kind, and OP/CP must balance.
 * meaning side: the same spec is given a meaning directly (which bugs the named constructor selects; & = conjunction,
   with values of one simple key unioned as tests/bugzilla/test_query.py pins; any_of = disjunction of its operands).
batches(base_length, max_length) is checked on id / package lists of 0-12 values over every interesting integer budget:
the batches must partition the split values in order, repeat every other parameter unchanged, stay within the budget
whenever every single value fits, be well formed, and (once per configuration) select the same bugs in union.
"""

import itertools
import re
import urllib.parse

PROPERTY = "C37"
LEVEL = "exploration"
ENGINE = "enum"
TECHNIQUE = "bounded exhaustive enumeration of query expressions and batch budgets against a reference Bugzilla chart interpreter"
RULE = (
    "all query expressions of a bounded grammar (named constructors over 1-2 values, raw Criterion/ChartGroup, & chains "
    "<=3, any_of over 1-3 operands incl. &-combinations and nested any_of) rendered by the real params() and interpreted by a "
    "reference Bugzilla chart evaluator on every bug of the product universe of the fields the query touches, compared with "
    "the directly computed meaning; plus batches() over id/package lists x contexts x base_length x every enumerated integer "
    "budget. A class is (any_of depth, number of &, simple/chart mix, outcome) resp. (axis, batch count class, premise); "
    "distinct_nontrivial counts classes observed."
)
ASSUMPTIONS = [
    "Bugzilla chart semantics per DESIGN A11: slots read in ascending numeric order, OP/CP groups joined by j<N> (default AND), "
    "top level AND, n<N> negates a condition, repeated simple parameters OR within a key and AND across keys; "
    "'---' as a resolution selects the empty resolution",
    "operators modelled: anywords (any value is a word of the field), nowordssubstr (no value is a substring), equals (one value)",
    "a & b with the same simple key on both sides is the union within that key (pinned by test_same_key_values_are_unioned), "
    "not an intersection; conjunction is demanded across keys and for all chart conditions",
    "any_of(q1..qn) means the disjunction of the meanings of q1..qn (docstring: 'OR several chart-only queries together'); "
    "any_of raising BugzillaUsageError is an accepted refusal",
    "Excl: criteria with no values, empty any_of(), empty queries inside any_of, equals with several values (Bugzilla's treatment is arguable)",
    "Excl: limit/offset/order are not part of a search's meaning; only their unchanged repetition in batches is checked",
    "Excl: splittable=True on hand-built Criterion objects (only package_list_any creates splittable criteria)",
    "with two splittable axes the axis judged is the one the docstring names ('only the largest splittable axis is divided', pinned by "
    "test_widest_axis_is_chosen) when it is strictly the widest in both raw and url-encoded characters; on a tie/disagreement any axis is accepted",
    "budget premise 'a single value fits' = every split value alone, next to all other parameters, fits base_length+max_length; "
    "no minimality of the number of batches is demanded (the statement does not ask for it)",
]
BOUNDS = {
    "quick": "18,792 query expressions (32 leaves, all ordered pairs, triples over 10 leaves in both groupings, any_of over 1-3 of 22 "
    "operands, nested any_of to depth 2, group x leaf combinations, paging) each on the product universe of the touched fields (4-768 bugs); "
    "batches: 605 configurations = n in {0,1,2,3,5,12} values of length 1/8/40/mixed x {id, package-list} axis x 6 contexts x base {0,100} "
    "(+ two-axis cases incl. more-but-shorter vs fewer-but-longer values in both directions, and a no-axis case) x every integer budget from below one-value-fits to above all-fit (thinned when the range exceeds 120): 34.7k batch runs",
    "thorough": "127,865 query expressions (triples over all 32 leaves in both groupings, & chains of 4, any_of over 1-3 of 33 operands and 4 of 8, "
    "deeper nesting); batches: 1,277 configurations, n in 0..12, every integer budget: 170k batch runs",
}

GL, GS = "Gentoo Linux", "Gentoo Security"

# ------------------------------------------------------------------------------------------------ spec -> real query


def gen_values(kind, n, pat):
    out = []
    for i in range(n):
        p = pat if pat != "mixed" else ("short", "mid", "long")[i % 3]
        if kind == "ids_gen":
            out.append({"short": i + 1, "mid": 90000000 + i, "long": 10**39 + i}[p])
        else:
            out.append(
                {"short": chr(97 + i), "mid": f"=c/p{i:02d}-1", "long": f"=dev-libs/verylongpackagename{i:02d}-1.2.3-r1"}[p]
            )
    return out


def build_real(spec):
    from pkgcore.bugzilla import enums as E
    from pkgcore.bugzilla.query import BugQuery, ChartGroup, Criterion

    def chart(c):
        if c[0] == "crit":
            return Criterion(c[1], E.ChartOp(c[2]), tuple(c[3]), negate=c[4])
        return ChartGroup(E.Join(c[1]), tuple(chart(x) for x in c[2]))

    k = spec[0]
    if k == "ids":
        return BugQuery.ids(spec[1])
    if k == "ids_gen":
        return BugQuery.ids(gen_values(k, spec[1], spec[2]))
    if k == "product":
        return BugQuery.product(*spec[1])
    if k == "component":
        return BugQuery.component(*spec[1])
    if k == "category":
        return BugQuery.category(*(E.BugCategory[c] for c in spec[1]))
    if k == "unresolved":
        return BugQuery.unresolved()
    if k == "resolution":
        return BugQuery.resolution(*spec[1])
    if k == "status":
        return BugQuery.status(*(E.Status(s) for s in spec[1]))
    if k == "cc":
        return BugQuery.cc(*spec[1])
    if k == "assigned_to":
        return BugQuery.assigned_to(*spec[1])
    if k == "keywords":
        return BugQuery.keywords(*spec[1])
    if k == "flag":
        return BugQuery.flag(spec[1], *(E.FlagStatus(s) for s in spec[2]))
    if k == "without_tags":
        return BugQuery.without_tags(*spec[1])
    if k == "pkgs":
        return BugQuery.package_list_any(spec[1])
    if k == "pkgs_gen":
        return BugQuery.package_list_any(gen_values(k, spec[1], spec[2]))
    if k in ("crit", "group"):
        return BugQuery(charts=(chart(spec),))
    if k == "and":
        return build_real(spec[1]) & build_real(spec[2])
    if k == "any":
        return BugQuery.any_of(*(build_real(x) for x in spec[1]))
    if k == "paged":
        return build_real(spec[1]).paged(spec[2], spec[3])
    if k == "order":
        import dataclasses

        return dataclasses.replace(build_real(spec[1]), order=spec[2])
    raise AssertionError(spec)


# ------------------------------------------------------------------------------------------------ meaning side
# A meaning is (simple: {attr: [accepted values]}, charts: [formula]); formulas:
#   ("one_of", attr, values) scalar attr in values | ("has_any", attr, values) set attr meets values
#   ("flag_any", name, statuses) | ("no_tag_contains", substrings) | ("not", f) | ("all", [f]) | ("some", [f])

SIMPLE_ATTR = {"ids": "id", "product": "product", "component": "component", "status": "status", "cc": "cc", "assigned_to": "assigned_to"}
COMPONENT_OF = {"STABLEREQ": "Stabilization", "KEYWORDREQ": "Keywording"}
CHART_FIELD_ATTR = {
    "keywords": ("has_any", "keywords"),
    "cf_stabilisation_atoms": ("has_any", "atoms"),
    "bug_status": ("one_of", "status"),
    "resolution": ("one_of", "resolution"),
    "cc": ("has_any", "cc"),
}


def _raw_formula(c):
    if c[0] == "group":
        return ("all" if c[1] == "AND" else "some", [_raw_formula(x) for x in c[2]])
    _, field, op, values, negate = c
    if field == "flagtypes.name" and op == "anywords":
        f = ("some", [("flag_any", v[:-1], [v[-1]]) for v in values])
    elif field == "tag" and op == "nowordssubstr":
        f = ("no_tag_contains", list(values))
    elif op == "anywords":
        kind, attr = CHART_FIELD_ATTR[field]
        f = (kind, attr, list(values))
    elif op == "equals":
        kind, attr = CHART_FIELD_ATTR[field]
        f = (kind, attr, list(values))
    else:
        raise AssertionError(c)
    return ("not", f) if negate else f


def meaning(spec):
    k = spec[0]
    if k in SIMPLE_ATTR:
        return ({SIMPLE_ATTR[k]: list(spec[1])}, [])
    if k == "ids_gen":
        return ({"id": gen_values(k, spec[1], spec[2])}, [])
    if k == "category":
        return ({"product": [GL], "component": [COMPONENT_OF[c] for c in spec[1]]}, [])
    if k == "unresolved":
        return ({"resolution": [""]}, [])
    if k == "resolution":
        return ({"resolution": ["" if r == "---" else r for r in spec[1]]}, [])
    if k == "keywords":
        return ({}, [("has_any", "keywords", list(spec[1]))])
    if k == "flag":
        return ({}, [("flag_any", spec[1], list(spec[2]))])
    if k == "without_tags":
        return ({}, [("no_tag_contains", list(spec[1]))])
    if k == "pkgs":
        return ({}, [("has_any", "atoms", list(spec[1]))])
    if k == "pkgs_gen":
        return ({}, [("has_any", "atoms", gen_values(k, spec[1], spec[2]))])
    if k in ("crit", "group"):
        return ({}, [_raw_formula(spec)])
    if k == "and":
        (s1, c1), (s2, c2) = meaning(spec[1]), meaning(spec[2])
        s = {a: list(v) for a, v in s1.items()}
        for a, v in s2.items():
            s[a] = s.get(a, []) + [x for x in v if x not in s.get(a, [])]
        return (s, c1 + c2)
    if k == "any":
        return ({}, [("some", [_as_formula(meaning(x)) for x in spec[1]])])
    if k in ("paged", "order"):
        return meaning(spec[1])
    raise AssertionError(spec)


def meaning_flat(spec):
    """The meaning under the *wrong* reading of any_of that ORs every chart of every operand (used by a classifier only)."""
    k = spec[0]
    if k == "and":
        (s1, c1), (s2, c2) = meaning_flat(spec[1]), meaning_flat(spec[2])
        s = {a: list(v) for a, v in s1.items()}
        for a, v in s2.items():
            s[a] = s.get(a, []) + [x for x in v if x not in s.get(a, [])]
        return (s, c1 + c2)
    if k == "any":
        charts = []
        for x in spec[1]:
            charts.extend(meaning_flat(x)[1])
        return ({}, [("some", charts)])
    if k in ("paged", "order"):
        return meaning_flat(spec[1])
    return meaning(spec)


SET_ATTRS = ("cc", "keywords", "flags", "tags", "atoms")


def _as_formula(m):
    simple, charts = m
    parts = []
    for attr, vals in simple.items():
        parts.append(("has_any" if attr in SET_ATTRS else "one_of", attr, vals))
    return ("all", parts + list(charts))


def holds(f, bug):
    t = f[0]
    if t == "one_of":
        return str(bug[f[1]]) in [str(v) for v in f[2]]
    if t == "has_any":
        return any(v in bug[f[1]] for v in f[2])
    if t == "flag_any":
        return any((f[1], s) in bug["flags"] for s in f[2])
    if t == "no_tag_contains":
        return not any(s in tag for tag in bug["tags"] for s in f[1])
    if t == "not":
        return not holds(f[1], bug)
    if t == "all":
        return all(holds(x, bug) for x in f[1])
    if t == "some":
        return any(holds(x, bug) for x in f[1])
    raise AssertionError(f)


def touched(f, acc):
    t = f[0]
    if t in ("one_of", "has_any"):
        acc.add(f[1])
    elif t == "flag_any":
        acc.add("flags")
    elif t == "no_tag_contains":
        acc.add("tags")
    elif t == "not":
        touched(f[1], acc)
    else:
        for x in f[1]:
            touched(x, acc)
    return acc


def has_empty(f):
    """criteria without values / empty groups: excluded from the semantic comparison"""
    t = f[0]
    if t in ("one_of", "has_any"):
        return not f[2]
    if t == "flag_any":
        return not f[2]
    if t == "no_tag_contains":
        return not f[1]
    if t == "not":
        return has_empty(f[1])
    return not f[1] or any(has_empty(x) for x in f[1])


# ------------------------------------------------------------------------------------------------ universe


def _subsets(vals):
    out = []
    for n in range(len(vals) + 1):
        out.extend(frozenset(c) for c in itertools.combinations(vals, n))
    return out


DOMAINS = {
    "id": [1, 2, 3, 9],
    "product": [GL, GS, "Other"],
    "component": ["Stabilization", "Keywording", "Other"],
    "resolution": ["", "FIXED", "WONTFIX"],
    "status": ["CONFIRMED", "RESOLVED", "IN_PROGRESS"],
    "cc": _subsets(["x@g.o", "y@g.o"]),
    "assigned_to": ["m1@g.o", "m2@g.o", "m3@g.o"],
    "keywords": _subsets(["K1", "K2"]),
    "flags": _subsets([("sc", "+"), ("sc", "-")]),
    "tags": _subsets(["nattka:skip", "t2"]),
    "atoms": _subsets(["=c/p-1", "=c/q-2"]),
}
ATTR_ORDER = list(DOMAINS)


def universe(attrs, override=None):
    doms = dict(DOMAINS)
    if override:
        doms.update(override)
    base = {a: doms[a][0] for a in ATTR_ORDER}
    used = [a for a in ATTR_ORDER if a in attrs]
    for combo in itertools.product(*(doms[a] for a in used)):
        bug = dict(base)
        bug.update(zip(used, combo))
        yield bug


# ------------------------------------------------------------------------------------------------ parameter side

_CHART_KEY = re.compile(r"^([fovnj])([0-9]+)$")
SIMPLE_KEYS = ("id", "product", "component", "resolution", "bug_status", "cc", "assigned_to")
PAGING_KEYS = ("limit", "offset", "order")


def parse_params(params):
    """-> (errors, simple {key: [values]}, tree) ; tree = ("group", join, negate, [children]) | ("crit", field, op, values, negate, slot)"""
    errs = []
    simple = {}
    slots = {}
    for key, value in params:
        if not isinstance(key, str) or not isinstance(value, str):
            errs.append(f"non-string parameter {key!r}={value!r}")
            continue
        m = _CHART_KEY.match(key)
        if m:
            slots.setdefault(int(m.group(2)), {}).setdefault(m.group(1), []).append(value)
        elif key in PAGING_KEYS:
            continue
        elif key in SIMPLE_KEYS:
            simple.setdefault(key, []).append(value)
        else:
            errs.append(f"unknown parameter {key!r}")
    root = ("group", "AND", False, [])
    stack = [root]
    for n in sorted(slots):
        s = slots[n]
        f = s.get("f")
        if not f:
            errs.append(f"slot {n} has {sorted(s)} but no f{n}")
            continue
        if len(f) > 1:
            errs.append(f"slot {n} is used {len(f)} times (f{n}={f})")
        if f[0] == "OP":
            if set(s) - {"f", "j", "n"} or len(s.get("j", [])) > 1:
                errs.append(f"group opener in slot {n} carries {sorted(s)}")
            j = s.get("j", ["AND"])[0]
            if j not in ("AND", "OR"):
                errs.append(f"slot {n}: unknown join {j!r}")
            g = ("group", j, bool(s.get("n")), [])
            stack[-1][3].append(g)
            stack.append(g)
        elif f[0] == "CP":
            if set(s) - {"f"}:
                errs.append(f"group closer in slot {n} carries {sorted(s)}")
            if len(stack) == 1:
                errs.append(f"CP in slot {n} closes nothing")
            else:
                stack.pop()
        else:
            if len(s.get("o", [])) != 1 or "j" in s:
                errs.append(f"condition in slot {n} has o={s.get('o')} j={s.get('j')}")
            stack[-1][3].append(("crit", f[0], (s.get("o") or ["?"])[0], s.get("v", []), bool(s.get("n")), n))
    if len(stack) != 1:
        errs.append(f"{len(stack) - 1} group(s) opened but never closed")
    return errs, simple, root


def _words(field, bug):
    if field == "keywords":
        return set(bug["keywords"])
    if field == "flagtypes.name":
        return {n + s for n, s in bug["flags"]}
    if field == "tag":
        return set(bug["tags"])
    if field == "cf_stabilisation_atoms":
        return set(bug["atoms"])
    if field == "bug_status":
        return {bug["status"]}
    if field == "resolution":
        return {bug["resolution"]}
    if field == "cc":
        return set(bug["cc"])
    raise KeyError(field)


def bz_chart(node, bug):
    if node[0] == "group":
        _, join, negate, kids = node
        rs = [bz_chart(k, bug) for k in kids]
        r = all(rs) if join == "AND" else any(rs)
        return r != negate
    _, field, op, values, negate, _ = node
    words = _words(field, bug)
    vals = [w for v in values for w in v.split()]
    if op == "anywords":
        r = any(v in words for v in vals)
    elif op == "nowordssubstr":
        text = " ".join(sorted(words))
        r = not any(v in text for v in vals)
    elif op == "equals":
        r = len(values) == 1 and values[0] in words
    else:
        raise KeyError(op)
    return r != negate


def bz_simple(key, values, bug):
    if key == "id":
        return str(bug["id"]) in values
    if key == "bug_status":
        return bug["status"] in values
    if key == "resolution":
        return ("---" if bug["resolution"] == "" else bug["resolution"]) in values
    if key == "cc":
        return any(v in bug["cc"] for v in values)
    return bug[key] in values


def bz_match(simple, tree, bug):
    return all(bz_simple(k, v, bug) for k, v in simple.items()) and bz_chart(tree, bug)


# ------------------------------------------------------------------------------------------------ query check


def shape(spec):
    """(any_of depth, number of &) for classification"""
    k = spec[0]
    if k == "and":
        (d1, a1), (d2, a2) = shape(spec[1]), shape(spec[2])
        return max(d1, d2), a1 + a2 + 1
    if k == "any":
        ds = [shape(x) for x in spec[1]]
        return 1 + max([d for d, _ in ds] + [0]), sum(a for _, a in ds)
    if k in ("paged", "order"):
        return shape(spec[1])
    return 0, 0


def check_query(spec, flat=False):
    """-> (outcome, msgs)"""
    from pkgcore.bugzilla.errors import BugzillaUsageError

    try:
        q = build_real(spec)
    except BugzillaUsageError:
        return "refused", []
    params = q.params()
    errs, simple, tree = parse_params(params)
    if errs:
        return "malformed", [f"{spec} renders to {params}: {errs[0]}"]
    m = (meaning_flat if flat else meaning)(spec)
    f = _as_formula(m)
    if has_empty(f):
        return "excluded-empty", []
    attrs = touched(f, set())
    n = 0
    for bug in universe(attrs):
        n += 1
        got = bz_match(simple, tree, bug)
        exp = holds(f, bug)
        if got != exp:
            shown = {a: (sorted(map(str, bug[a])) if isinstance(bug[a], frozenset) else bug[a]) for a in sorted(attrs)}
            return "differs", [
                f"{spec} renders to {params}; a bug with {shown} is {'selected' if got else 'not selected'} by the rendered "
                f"parameters but the search means it {'is' if exp else 'is not'} selected"
            ]
    return "ok", []


# ------------------------------------------------------------------------------------------------ batch check


def _enc(params):
    return len(urllib.parse.urlencode(params))


def check_batches(spec, base, maxlen, semantic=False):
    """-> (outcome class, msgs)"""
    q = build_real(spec)
    orig = q.params()
    errs, osimple, otree = parse_params(orig)
    if errs:
        return "malformed", [f"{spec} renders to {orig}: {errs[0]}"]
    batches = list(q.batches(base_length=base, max_length=maxlen))
    bps = [b.params() for b in batches]
    what = f"{spec}.batches(base_length={base}, max_length={maxlen})"
    if not bps:
        return "bad", [f"{what} yields no batch at all"]
    for bp in bps:
        e2, _, _ = parse_params(bp)
        if e2:
            return "malformed", [f"{what}: batch {bp}: {e2[0]}"]
    cands = []
    if "id" in osimple:
        cands.append("id")
    for node in otree[3]:
        if node[0] == "crit" and node[1] == "cf_stabilisation_atoms" and node[2] == "anywords" and not node[4]:
            cands.append(f"v{node[5]}")
    if not cands:
        if bps != [orig]:
            return "bad", [f"{what}: nothing to split, expected the query itself, got {bps}"]
        return "nosplit", []

    def rest(ps, key):
        return [p for p in ps if p[0] != key]

    def vals(ps, key):
        return [v for k, v in ps if k == key]

    def judge(axis):
        """-> (failure message or None, values of the axis, premise)"""
        ovals = vals(orig, axis)
        if not all(rest(bp, axis) == rest(orig, axis) for bp in bps):
            return f"{what}: the other parameters are not repeated unchanged in every batch: original {orig}, batches {bps}", ovals, False
        if [v for bp in bps for v in vals(bp, axis)] != ovals:
            return f"{what}: split values {ovals} come back as {[vals(bp, axis) for bp in bps]}", ovals, False
        if ovals and any(not vals(bp, axis) for bp in bps):
            return f"{what}: a batch carries none of the split values: {[vals(bp, axis) for bp in bps]}", ovals, False
        if not ovals and len(bps) != 1:
            return f"{what}: no values but {len(bps)} batches", ovals, False
        fixed = rest(orig, axis)
        # with no value to split there is no "single value" whose fitting could be promised
        premise = bool(ovals) and all(base + _enc(fixed + [(axis, v)]) <= maxlen for v in ovals)
        if premise:
            for bp in bps:
                if base + _enc(bp) > maxlen:
                    return (
                        f"{what}: every single value fits, yet batch with values {vals(bp, axis)} needs {base}+{_enc(bp)} > {maxlen}",
                        ovals,
                        premise,
                    )
        return None, ovals, premise

    # Which axis is divided: the docstring says "only the largest splittable axis is divided, everything else is repeated
    # in every batch" (pinned by test_widest_axis_is_chosen), and "a single value fits" can only be read against that axis.
    # So when one splittable axis is strictly the widest both in raw and in url-encoded characters it is THE axis judged;
    # when the two measures tie or disagree, "largest" is not decided here and any splittable axis is accepted.
    def width(key):
        vs = vals(orig, key)
        return len("".join(vs)), sum(len(urllib.parse.quote_plus(v)) for v in vs)

    cands.sort(key=lambda key: tuple(-w for w in width(key)))
    if len(cands) > 1:
        r0, e0 = width(cands[0])
        if all(r0 > width(k)[0] and e0 > width(k)[1] for k in cands[1:]):
            cands = cands[:1]
    verdicts = [(key,) + judge(key) for key in cands]
    good = [v for v in verdicts if v[1] is None]
    if not good:
        return "bad", [verdicts[0][1]]
    axis, _, ovals, premise = good[0]
    f = _as_formula(meaning(spec))
    if semantic and ovals and not has_empty(f):
        attrs = touched(f, set())
        idvals = [int(v) for v in osimple.get("id", [])]
        pk = [v for n in otree[3] if n[0] == "crit" and n[1] == "cf_stabilisation_atoms" for v in n[3]]
        over = {"id": idvals + [0], "atoms": [frozenset()] + [frozenset([v]) for v in pk]}
        parsed = [parse_params(bp)[1:] for bp in bps]
        for bug in universe(attrs, over):
            exp = holds(f, bug)
            un = any(bz_match(s, t, bug) for s, t in parsed)
            if un != exp:
                return "bad", [f"{what}: the batches together {'select' if un else 'miss'} a bug (id={bug['id']}, atoms={sorted(bug['atoms'])}) that the search {'selects' if exp else 'does not select'}"]
    nb = len(bps)
    nbc = "1" if nb == 1 else ("each" if nb == len(ovals) else "n")
    return f"{'id' if axis == 'id' else 'chart'}:{nbc}:{'fits' if premise else 'toosmall'}", []


# ------------------------------------------------------------------------------------------------ enumeration

S_LEAVES = [
    ["ids", [1]],
    ["ids", [1, 2]],
    ["ids", [2, 3]],
    ["product", [GL]],
    ["product", [GL, GS]],
    ["component", ["Stabilization"]],
    ["component", ["Stabilization", "Keywording"]],
    ["category", ["STABLEREQ"]],
    ["category", ["STABLEREQ", "KEYWORDREQ"]],
    ["unresolved"],
    ["resolution", ["FIXED"]],
    ["resolution", ["FIXED", "---"]],
    ["status", ["CONFIRMED"]],
    ["status", ["CONFIRMED", "RESOLVED"]],
    ["cc", ["x@g.o"]],
    ["cc", ["x@g.o", "y@g.o"]],
    ["assigned_to", ["m1@g.o"]],
    ["assigned_to", ["m1@g.o", "m2@g.o"]],
]
KW1 = ["keywords", ["K1"]]
KW12 = ["keywords", ["K1", "K2"]]
FLP = ["flag", "sc", ["+"]]
WT1 = ["without_tags", ["skip"]]
PK1 = ["pkgs", ["=c/p-1"]]
NEGKW = ["crit", "keywords", "anywords", ["K1"], True]
RAWG = ["group", "AND", [["crit", "keywords", "anywords", ["K2"], False], ["crit", "flagtypes.name", "anywords", ["sc-"], False]]]
C_LEAVES = [
    KW1,
    ["keywords", ["K2"]],
    KW12,
    FLP,
    ["flag", "sc", ["+", "-"]],
    ["flag", "sc", ["-"]],
    WT1,
    ["without_tags", ["skip", "t2"]],
    PK1,
    ["pkgs", ["=c/p-1", "=c/q-2"]],
    NEGKW,
    ["crit", "bug_status", "equals", ["CONFIRMED"], False],
    RAWG,
    ["group", "OR", [["crit", "keywords", "anywords", ["K1"], False], ["group", "AND", [["crit", "resolution", "equals", ["FIXED"], True]]]]],
]
LEAVES = S_LEAVES + C_LEAVES
R_LEAVES = [["ids", [1]], ["ids", [1, 2]], ["category", ["STABLEREQ"]], ["unresolved"], ["cc", ["x@g.o"]], KW1, FLP, WT1, ["pkgs", ["=c/p-1", "=c/q-2"]], RAWG]


def AND(a, b):
    return ["and", a, b]


def ANY(*xs):
    return ["any", list(xs)]


def query_specs(tier):
    """Deterministic generator of query specs, simplest first."""
    quick = tier == "quick"
    for l in LEAVES:
        yield l
    for a in LEAVES:
        for b in LEAVES:
            yield AND(a, b)
    tri = R_LEAVES if quick else LEAVES
    for a in tri:
        for b in tri:
            for c in tri:
                yield AND(AND(a, b), c)
                yield AND(a, AND(b, c))
    # any_of operands: chart leaves and &-combinations of chart leaves
    cr = [KW1, KW12, FLP, WT1, PK1, NEGKW] if quick else [KW1, KW12, FLP, WT1, PK1, NEGKW, RAWG, ["flag", "sc", ["-"]]]
    pairsrc = cr[:4] if quick else cr[:5]
    ops = list(cr) + [AND(a, b) for a in pairsrc for b in pairsrc]
    for a in ops:
        yield ANY(a)
    for a in ops:
        for b in ops:
            yield ANY(a, b)
    for a in ops:
        for b in ops:
            for c in ops:
                yield ANY(a, b, c)
    # nested any_of
    base3 = [KW1, FLP, WT1]
    inner = [ANY(a, b) for a in base3 for b in base3] + [ANY(AND(KW1, FLP), WT1), ANY(WT1, AND(FLP, PK1)), ANY(AND(KW1, FLP)), ANY(KW12)]
    nest = [KW1, KW12, FLP, WT1, PK1] + inner
    for a in nest:
        yield ANY(a)
        for b in nest:
            yield ANY(a, b)
    nest3 = nest[:8] if quick else nest
    for a in nest3:
        for b in nest3:
            for c in nest3:
                yield ANY(a, b, c)
    if not quick:
        deep = [ANY(x, KW1) for x in inner[:6]]
        for a in deep:
            for b in nest:
                yield ANY(a, b)
                yield ANY(AND(a, b), FLP)
    if not quick:
        # longer shapes: & chains of 4 and any_of over 4 operands
        for a in R_LEAVES:
            for b in R_LEAVES:
                for c in R_LEAVES:
                    for d in R_LEAVES:
                        yield AND(AND(AND(a, b), c), d)
        for a in cr:
            for b in cr:
                for c in cr:
                    for d in cr:
                        yield ANY(a, b, c, d)
    # any_of over operands that carry simple parameters (must be refused or mean the disjunction)
    for s in S_LEAVES[::3]:
        for c in (KW1, FLP):
            yield ANY(s, c)
            yield ANY(c, s)
            yield ANY(AND(s, c), c)
    # groups combined with leaves through &
    groups = [ANY(KW1), ANY(KW1, FLP), ANY(FLP, WT1, PK1), ANY(AND(KW1, FLP), WT1), ANY(WT1, AND(FLP, PK1)), ANY(ANY(KW1, FLP), WT1), ANY(NEGKW, PK1), ANY(KW12, ANY(FLP))]
    groups += inner[:12]
    for g in groups:
        for l in LEAVES:
            yield AND(l, g)
            yield AND(g, l)
    for g in groups:
        for h in groups:
            yield AND(g, h)
    mid = R_LEAVES
    for a in mid:
        for g in groups:
            for b in mid:
                yield AND(AND(a, g), b)
    # paging / ordering does not disturb the charts
    for l in (KW1, ANY(KW1, FLP), AND(["ids", [1, 2]], WT1)):
        yield ["paged", l, 10, 0]
        yield ["paged", l, 10, 5]
        yield ["order", l, "bug_id"]
        yield AND(["paged", l, 10, 5], ["order", FLP, "changeddate"])


NS = {"quick": [0, 1, 2, 3, 5, 12], "thorough": list(range(13))}
PATS = ["short", "mid", "long", "mixed"]


def contexts(axis_spec):
    a = axis_spec
    return [
        ("alone", a),
        ("simple-after", AND(a, ["unresolved"])),
        ("chart-before", AND(KW1, a)),
        ("group-before", AND(ANY(KW1, FLP), a)),
        ("paged", ["paged", AND(a, ["cc", ["x@g.o"]]), 10, 5]),
        ("order", ["order", AND(["status", ["CONFIRMED"]], a), "bug_id"]),
    ]


def batch_configs(tier):
    out = []
    for kind in ("ids_gen", "pkgs_gen"):
        for n in NS[tier]:
            for pat in PATS:
                for cname, spec in contexts([kind, n, pat]):
                    for base in (0, 100):
                        out.append([spec, base])
    # both axes present: the narrower one rides along
    # incl. pairs where the axis with more values is not the wider one (both directions)
    for n1, p1, n2, p2 in [
        (2, "short", 5, "mid"),
        (5, "mid", 2, "short"),
        (3, "long", 3, "mid"),
        (3, "mid", 3, "long"),
        (0, "short", 4, "mid"),
        (4, "mid", 0, "short"),
        (12, "short", 1, "long"),
        (9, "short", 3, "long"),
        (8, "short", 4, "mid"),
        (2, "long", 9, "short"),
        (3, "mid", 12, "short"),
    ]:
        for base in (0, 100):
            out.append([AND(["ids_gen", n1, p1], ["pkgs_gen", n2, p2]), base])
            out.append([AND(["pkgs_gen", n2, p2], AND(["ids_gen", n1, p1], ["unresolved"])), base])
    # no splittable axis
    out.append([AND(["unresolved"], KW1), 0])
    return out


def budgets(spec, base, tier):
    """Integer budgets from just below 'one value fits' to just above 'everything fits' (reference arithmetic only)."""
    # the range only has to cover the interesting region; it is not part of the oracle
    q = build_real(spec)
    total = base + _enc(q.params())
    allvals = []
    for k in ("ids_gen", "pkgs_gen"):
        allvals += [len(urllib.parse.quote_plus(str(v))) for v in _find_gen(spec, k)]
    lo = total - sum(allvals) - 4 * len(allvals) - 3
    hi = total + 3
    rng = list(range(max(1, lo), hi + 1))
    if tier == "quick" and len(rng) > 120:
        rng = sorted(set(rng[:70] + rng[70:-30:7] + rng[-30:]))
    return rng


def _find_gen(spec, kind):
    if spec[0] == kind:
        return gen_values(kind, spec[1], spec[2])
    out = []
    for x in spec[1:]:
        if isinstance(x, list) and x and isinstance(x[0], str):
            out += _find_gen(x, kind)
        elif isinstance(x, list):
            for y in x:
                if isinstance(y, list) and y and isinstance(y[0], str):
                    out += _find_gen(y, kind)
    return out


# ------------------------------------------------------------------------------------------------ runner interface

QTASKS = {"quick": 96, "thorough": 320}
BTASKS = {"quick": 64, "thorough": 160}


def tasks(tier):
    return [("q", tier, i) for i in range(QTASKS[tier])] + [("b", tier, i) for i in range(BTASKS[tier])]


def work(task):
    kind, tier, idx = task
    classes, viol, samples = {}, [], []
    evals = 0

    def cls(k):
        classes[k] = classes.get(k, 0) + 1

    if kind == "q":
        n = QTASKS[tier]
        for j, spec in enumerate(query_specs(tier)):
            if j % n != idx:
                continue
            evals += 1
            outcome, msgs = check_query(spec)
            d, a = shape(spec)
            s, c = meaning(spec)
            mix = ("S" if s else "") + ("C" if c else "")
            cls(f"q:any{d}:and{min(a, 3)}:{mix}:{outcome}")
            if msgs:
                viol.append({"kind": "query", "spec": spec, "msg": msgs[0]})
            if len(samples) < 2 and d and a:
                samples.append({"spec": spec, "params": build_real(spec).params()})
    else:
        n = BTASKS[tier]
        for j, (spec, base) in enumerate(batch_configs(tier)):
            if j % n != idx:
                continue
            bs = budgets(spec, base, tier)
            mid = bs[len(bs) // 2]
            for maxlen in bs:
                evals += 1
                outcome, msgs = check_batches(spec, base, maxlen, semantic=(maxlen == mid))
                cls(f"batch:{outcome}")
                if msgs:
                    viol.append({"kind": "batch", "spec": spec, "base": base, "max": maxlen, "semantic": maxlen == mid, "msg": msgs[0]})
                    if len(viol) > 60:
                        break
            if len(samples) < 1:
                samples.append({"spec": spec, "base": base, "budgets": [bs[0], bs[-1]]})
    import json

    viol.sort(key=lambda c: len(json.dumps(c)))
    return {"evals": evals, "classes": classes, "viol": viol, "samples": samples}


def replay(case):
    if case["kind"] == "query":
        return check_query(case["spec"])[1]
    return check_batches(case["spec"], case["base"], case["max"], semantic=case.get("semantic", False))[1]


# ------------------------------------------------------------------------------------------------ known findings


def _has_multi_chart_operand(spec):
    k = spec[0]
    if k == "any":
        for x in spec[1]:
            if len(meaning(x)[1]) > 1 or _has_multi_chart_operand(x):
                return True
        return False
    if k == "and":
        return _has_multi_chart_operand(spec[1]) or _has_multi_chart_operand(spec[2])
    if k in ("paged", "order"):
        return _has_multi_chart_operand(spec[1])
    return False


def _any_of_flattens(case):
    """any_of() given an operand that is itself a conjunction of several chart conditions (a & b): the operand's conditions
    are spliced into the OR group one by one, so (a AND b) OR c is rendered as a OR b OR c.  True only if the query has such
    an operand, is otherwise well formed, and the rendered parameters select exactly what that flattened reading selects."""
    if case.get("kind") != "query" or not _has_multi_chart_operand(case["spec"]):
        return False
    outcome, _ = check_query(case["spec"], flat=True)
    return outcome == "ok"


CLASSIFIERS = {"any-of-flattens-conjunctions": _any_of_flattens}
