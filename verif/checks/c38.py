"""C38 package-list rewriting touches only the lines (and only the keyword field) it must.

Every package-list text of a bounded grammar (<=3 lines; keyword configurations with/without the `*`/`^`/`-` sentinels;
four spacing styles incl. tabs/indent/trailing blanks; trailing and stand-alone comments; LF/CRLF/no final EOL) is
 * parsed by the real PackageList and compared entry by entry with an independent line scanner, and re-joined
   (raw+eol) to the original text;
 * rewritten line by line through PackageListEntry.with_keywords;
 * expanded with each of a few suggestion functions and compared with a reference expansion that splices the new
   keywords into the original line between the first and last keyword token and touches nothing else.
PackageList.build(entries) is parsed back and compared with the entries.
"""

import itertools

PROPERTY = "C38"
LEVEL = "exploration"
ENGINE = "enum"
TECHNIQUE = "bounded exhaustive enumeration of list texts x suggestion functions against a reference splice model"
RULE = (
    "all package-list texts built from (keyword configuration x spacing style x comment style) lines, blank and "
    "comment-only lines, in lists of 1-3 lines with LF/CRLF/missing-final-EOL patterns; each text is parsed, re-joined, "
    "rewritten per line with with_keywords and expanded under constant and package-dependent suggestion functions; "
    "PackageList.build over atom x keyword entries. A class is (operation, which sentinels the list holds, outcome); "
    "distinct_nontrivial counts classes observed."
)
ASSUMPTIONS = [
    "line separators limited to LF and CRLF (plus a lone CR in thorough); the other separators str.splitlines honours "
    "(VT, FF, FS/GS/RS, NEL, LS, PS) are excluded: the statement does not say whether they end a line",
    "Excl: a comment directly attached to a token without whitespace (it is part of the token, pinned by test_pkglist)",
    "Excl (exact keyword expectation only, preservation still checked): a `*` whose suggestion is empty on a line that has "
    "other keywords (docstring says the line 'collapses to -' but the other keywords stay) and lines with two `^`",
    "error cases follow the expand() docstring: `^` with no package line above, or `^` copying an empty line onto a line "
    "with other keywords, must raise PackageListError",
    "the 'keyword field' of a line is the span from the first to the last keyword token; a rewritten line must equal "
    "original[:field_start] + ' '.join(new keywords) + original[field_end:]",
    "suggestion functions never return sentinels or '#' tokens; each `*` line is compared with what the function answers for that line's own atom",
]
BOUNDS = {
    "quick": "366 line shapes (12 keyword configurations x 5 spacing styles x 6 comment styles incl. comments followed by blanks/tab, + 6 "
    "blank/comment-only); 21,861 texts: all single lines x 3 EOLs, all ordered pairs of a 75-line subset x 3 EOL patterns, all 12^3 "
    "keyword-configuration triples x 2 EOL patterns, blank-in-the-middle triples; 4 suggestion functions; with_keywords x 3 keyword tuples "
    "per line; build over <=2 entries (1,807)",
    "thorough": "456 line shapes; 1,051,395 texts: all ordered pairs of the 456 shapes x 3 EOL patterns (incl. lone CR), all triples of the "
    "75-line subset; 5 suggestion functions; build over <=3 entries (5,903)",
}

SENT_ALL, SENT_SAME, SENT_NONE = "*", "^", "-"

SPECS = ["dev-libs/a", "dev-libs/b-1.2", "=dev-libs/c-2", ">=dev-libs/d-1:2", "dev-libs/e:3"]
KWCONF = [
    (),
    ("amd64",),
    ("amd64", "~x86"),
    ("*",),
    ("^",),
    ("-",),
    ("*", "ppc"),
    ("^", "amd64"),
    ("amd64", "^"),
    ("~x86", "*"),
    ("amd64#x86",),
    ("*", "^"),
]
KWCONF_T = KWCONF + [("*#c",), ("amd64", "*", "~x86"), ("-", "amd64")]
# (indent, separator before each keyword, trailing blanks)
STYLES = [("", " ", ""), ("", "\t", ""), ("  ", "   ", "  "), ("\t", " \t ", " "), ("     ", " ", "")]
# comment part appended after the trailing blanks; it brings its own leading whitespace
COMMENTS = ["", "  # why", "\t#x * ^ -", " #c", "  # needs testing  ", " #t\t"]
BLANKS = ["", "   ", "# standalone", "  # indented * ^", "\t", "# trailing blanks \t"]
NS_, NC_ = len(STYLES), len(COMMENTS)


def _line(ki, kws, style, comment):
    indent, sep, trail = STYLES[style]
    spec = SPECS[ki % len(SPECS)]
    return indent + spec + "".join(sep + k for k in kws) + trail + COMMENTS[comment]


def line_shapes(tier):
    kc = KWCONF if tier == "quick" else KWCONF_T
    out = []
    for ki, kws in enumerate(kc):
        for s in range(len(STYLES)):
            for c in range(len(COMMENTS)):
                out.append(_line(ki, kws, s, c))
    return out + BLANKS


def reduced_shapes():
    out = []
    for ki, kws in enumerate(KWCONF):
        for s, c in ((0, 0), (0, 1), (2, 0), (2, 1), (4, 3), (0, 4)):
            out.append(_line(ki, kws, s, c))
    return out + BLANKS[:1] + BLANKS[2:4]


def _join(lines, eols):
    return "".join(l + e for l, e in zip(lines, eols))


TRI_EOLS = [("\n", "\n", ""), ("\r\n", "\n", "\r\n")]


# Specs that name the same cat/pkg(-ver) and differ only in operator, slot or sub-slot, with what the atom-dependent
# suggestion function "byatom" answers for each (spelled out per token, so the reference needs no atom parser).
ATOM_TABLE = {
    "dev-lang/python:3.11": ("alpha",),
    "dev-lang/python:3.12": ("ia64",),
    "dev-lang/python:3.12/3": ("ia64", "mips"),
    "dev-lang/python": (),
    "dev-libs/a-1": ("arm",),
    "=dev-libs/a-1": ("arm",),
    ">=dev-libs/a-1": ("hppa",),
    "~dev-libs/a-1": ("sparc",),
    "dev-libs/a-1:2": ("arm", "ppc"),
    "<dev-libs/a-1": (),
}
ATOM_TOKENS = list(ATOM_TABLE)
ATOM_LINES = [t + k for t in ATOM_TOKENS for k in (" *", "\t^", "  amd64 *  # c ")]


def _atomdep_texts(i):
    """line i first, then every other line (so both orders occur over the blocks), then `*`,`*`,`^` / `*`,`^`,`*` triples"""
    a = ATOM_LINES[i]
    out = [a + "\n" + b for b in ATOM_LINES]
    if a.endswith(" *"):
        for t in ATOM_TOKENS:
            for u in ATOM_TOKENS:
                out.append(a + "\n" + t + " *\r\n" + u + " ^")
            out.append(a + "\n" + t + " ^\n" + ATOM_TOKENS[(i + 1) % len(ATOM_TOKENS)] + " *\n")
    return out


def blocks(tier):
    """Cheap descriptors of disjoint slices of the enumeration, simplest first; block_texts() expands one."""
    shapes = line_shapes(tier)
    out = [("single", i) for i in range(len(shapes))]
    npair = len(reduced_shapes()) if tier == "quick" else len(shapes)
    out += [("pair", i) for i in range(npair)]
    out += [("tri", i, j) for i in range(len(KWCONF)) for j in range(len(KWCONF))]
    out += [("blank", i) for i in range(len(KWCONF))]
    if tier != "quick":
        nred = len(reduced_shapes())
        out += [("tri3", i, j) for i in range(nred) for j in range(nred)]
    out += [("atomdep", i) for i in range(len(ATOM_LINES))]
    return out


def block_texts(tier, blk):
    shapes = line_shapes(tier)
    red = reduced_shapes()
    kind = blk[0]
    out = []
    if kind == "single":
        for e in ("", "\n", "\r\n") + (("\r",) if tier != "quick" else ()):
            out.append(shapes[blk[1]] + e)
    elif kind == "pair":
        if tier == "quick":
            src, eols = red, [("\n", ""), ("\r\n", "\r\n"), ("\n", "\r\n")]
        else:
            src, eols = shapes, [("\n", ""), ("\r\n", "\r\n"), ("\r", "\n")]
        a = src[blk[1]]
        for b in src:
            for eo in eols:
                out.append(_join((a, b), eo))
    elif kind == "tri":
        i, j = blk[1], blk[2]
        for k, kc_ in enumerate(KWCONF):
            n = (i * len(KWCONF) + j) * len(KWCONF) + k + 1
            ls = (
                _line(i, KWCONF[i], n % NS_, (n // 4) % NC_),
                _line(j + 1, KWCONF[j], (n // 2) % NS_, (n // 5) % NC_),
                _line(k + 2, kc_, (n // 3) % NS_, (n // 7) % NC_),
            )
            for eo in TRI_EOLS:
                out.append(_join(ls, eo))
    elif kind == "blank":
        i = blk[1]
        for j, kb in enumerate(KWCONF):
            for bl in (BLANKS[0], BLANKS[2], BLANKS[3]):
                out.append(_join((_line(i, KWCONF[i], 0, 0), bl, _line(j + 1, kb, 2, 1)), ("\n", "\r\n", "\n")))
    elif kind == "atomdep":
        out = _atomdep_texts(blk[1])
    else:
        a, b = red[blk[1]], red[blk[2]]
        for c in red:
            out.append(_join((a, b, c), TRI_EOLS[(len(a) + len(c)) % 2]))
    return out


def texts(tier):
    """The whole enumeration (used for counting; a handful of texts occur in two blocks, which is harmless)."""
    return [t for blk in blocks(tier) for t in block_texts(tier, blk)]


# ------------------------------------------------------------------------------------------------ reference scanner

WS = " \t"


def ref_lines(text):
    out = []
    i = 0
    n = len(text)
    while i < n:
        j = i
        while j < n and text[j] not in "\r\n":
            j += 1
        if j == n:
            eol = ""
        elif text[j] == "\r" and text[j + 1 : j + 2] == "\n":
            eol = "\r\n"
        else:
            eol = text[j]
        out.append((text[i:j], eol))
        i = j + len(eol)
    return out


def ref_scan(raw):
    """-> (hash position or len(raw), [(start, end, token)...] before the comment)"""
    hashpos = len(raw)
    for p, ch in enumerate(raw):
        if ch == "#" and (p == 0 or raw[p - 1] in WS):
            hashpos = p
            break
    toks = []
    p = 0
    while p < hashpos:
        if raw[p] in WS:
            p += 1
            continue
        q = p
        while q < hashpos and raw[q] not in WS:
            q += 1
        toks.append((p, q, raw[p:q]))
        p = q
    return hashpos, toks


SUGGESTS = ["none", "one", "two", "bykey", "three"]


def suggest_fn(name):
    if name == "none":
        return lambda pkg: ()
    if name == "one":
        return lambda pkg: ("arm",)
    if name == "two":
        return lambda pkg: ("arm", "hppa")
    if name == "three":
        return lambda pkg: ["alpha", "arm", "hppa"]
    if name == "byatom":
        # depends on operator, slot and sub-slot of the atom it is asked about, not only on cat/pkg-ver
        def byatom(pkg):
            ops = {"=": ("arm",), ">=": ("hppa",), "~": ("sparc",)}.get(pkg.op, ())
            slots = {"3.11": ("alpha",), "3.12": ("ia64",), "2": ("ppc",)}.get(pkg.slot, ())
            return ops + slots + (("mips",) if pkg.subslot == "3" else ())

        return byatom
    table = {"dev-libs/a": (), "dev-libs/b": ("arm",), "dev-libs/c": ("arm", "hppa"), "dev-libs/d": ("sparc",), "dev-libs/e": ()}
    return lambda pkg: table[str(pkg.key)]


def ref_suggest(name, spec_token):
    """What the suggestion function returns for the package a spec token names (independent of pkgcore atoms)."""
    if name == "none":
        return ()
    if name == "one":
        return ("arm",)
    if name == "two":
        return ("arm", "hppa")
    if name == "three":
        return ("alpha", "arm", "hppa")
    if name == "byatom":
        return ATOM_TABLE[spec_token]
    for key, val in (("dev-libs/a", ()), ("dev-libs/b", ("arm",)), ("dev-libs/c", ("arm", "hppa")), ("dev-libs/d", ("sparc",)), ("dev-libs/e", ())):
        if key in spec_token:
            return val
    raise AssertionError(spec_token)


def ref_expand(text, sname):
    """-> ("error", why) or ("ok", [(new_raw, eol, exact?)...])"""
    out = []
    prev = None
    for raw, eol in ref_lines(text):
        hashpos, toks = ref_scan(raw)
        if not toks:
            out.append((raw, eol, True, False))
            continue
        kws = [t[2] for t in toks[1:]]
        new = []
        exact = kws.count(SENT_SAME) <= 1
        for k in kws:
            if k == SENT_ALL:
                s = ref_suggest(sname, toks[0][2])
                if not s:
                    if len(kws) > 1:
                        exact = False
                    s = (SENT_NONE,)
                new.extend(s)
            elif k == SENT_SAME:
                if prev is None:
                    return "error", "^ with no line above"
                if not prev and len(kws) > 1:
                    return "error", "^ copies an empty line onto a line with keywords"
                new.extend(prev)
            else:
                new.append(k)
        prev = list(new)
        if new != kws:
            raw2 = raw[: toks[1][0]] + " ".join(new) + raw[toks[-1][1] :]
            out.append((raw2, eol, exact, True))
        else:
            out.append((raw, eol, True, False))
    return "ok", out


# ------------------------------------------------------------------------------------------------ checks


def sentinel_class(text):
    ks = set()
    for raw, _ in ref_lines(text):
        _, toks = ref_scan(raw)
        for t in toks[1:]:
            if t[2] in (SENT_ALL, SENT_SAME, SENT_NONE):
                ks.add(t[2])
    return "".join(sorted(ks)) or "plain"


def check_parse(text):
    from pkgcore.bugzilla.pkglist import PackageList

    msgs = []
    pl = PackageList(text)
    ents = pl.entries
    joined = "".join(e.raw + e.eol for e in ents)
    if joined != text or str(pl) != text:
        msgs.append(f"round trip: {text!r} re-joins to {joined!r}")
    rl = ref_lines(text)
    if len(rl) != len(ents):
        msgs.append(f"parse of {text!r}: {len(ents)} entries, {len(rl)} lines")
        return msgs
    for n, ((raw, eol), e) in enumerate(zip(rl, ents), start=1):
        hashpos, toks = ref_scan(raw)
        # whether blanks after a comment belong to the stored comment is not decided here (raw keeps them either way)
        exp = (n, raw, eol, raw[hashpos:].rstrip(WS), tuple(t[2] for t in toks[1:]), not toks)
        got = (e.lineno, e.raw, e.eol, e.comment.rstrip(WS), e.keywords, e.is_blank)
        if exp != got:
            msgs.append(f"parse of {text!r} line {n}: got (lineno, raw, eol, comment, keywords, blank)={got} expected {exp}")
            break
    return msgs


NEWKW = [(), ("arm",), ("arm", "ppc")]


def check_with_keywords(text):
    from pkgcore.bugzilla.pkglist import PackageList

    msgs = []
    for e in PackageList(text).entries:
        hashpos, toks = ref_scan(e.raw)
        for new in NEWKW:
            r = e.with_keywords(new)
            if not toks:
                if r.raw != e.raw:
                    msgs.append(f"with_keywords({new}) changed the package-less line {e.raw!r} to {r.raw!r}")
                continue
            if len(toks) > 1:
                pre, suf = e.raw[: toks[1][0]], e.raw[toks[-1][1] :]
                if r.raw != pre + " ".join(new) + suf:
                    msgs.append(f"with_keywords({new}) on {e.raw!r} gave {r.raw!r}, expected {pre + ' '.join(new) + suf!r}")
            else:
                pre, suf = e.raw[: toks[0][1]], e.raw[toks[0][1] :]
                ok = r.raw.startswith(pre) and r.raw.endswith(suf) and len(r.raw) >= len(pre) + len(suf)
                mid = r.raw[len(pre) : len(r.raw) - len(suf)] if ok else ""
                if not ok or tuple(mid.split()) != new or (new and mid[0] not in WS):
                    msgs.append(f"with_keywords({new}) on {e.raw!r} gave {r.raw!r}: spec/spacing/comment not preserved")
            if (r.keywords, r.eol, r.lineno, r.comment.rstrip(WS), r.pkg) != (new, e.eol, e.lineno, e.comment.rstrip(WS), e.pkg):
                msgs.append(f"with_keywords({new}) on {e.raw!r}: entry fields changed unexpectedly: {r}")
            if msgs:
                return msgs
    return msgs


def check_expand(text, sname):
    """-> (outcome, msgs)"""
    from pkgcore.bugzilla.errors import PackageListError
    from pkgcore.bugzilla.pkglist import PackageList

    status, exp = ref_expand(text, sname)
    pl = PackageList(text)
    try:
        res = pl.expand(suggest_fn(sname))
    except PackageListError as e:
        if status == "error":
            return "refused", []
        return "bad", [f"expand({sname}) of {text!r} raised {e!r}"]
    if status == "error":
        return "bad", [f"expand({sname}) of {text!r} returned {res.text!r} but {exp}: must raise PackageListError"]
    got = ref_lines(res.text)
    if len(got) != len(exp):
        return "bad", [f"expand({sname}) of {text!r} changed the number of lines: {res.text!r}"]
    orig = ref_lines(text)
    changed = False
    for n, ((graw, geol), (eraw, eeol, exact, rewritten), (oraw, _)) in enumerate(zip(got, exp, orig), start=1):
        if geol != eeol:
            return "bad", [f"expand({sname}) of {text!r} line {n}: line ending {geol!r}, was {eeol!r}"]
        if not rewritten:
            if graw != oraw:
                return "bad", [f"expand({sname}) of {text!r} line {n} has no sentinel but changed: {oraw!r} -> {graw!r}"]
            continue
        changed = True
        _, toks = ref_scan(oraw)
        pre, suf = oraw[: toks[1][0]], oraw[toks[-1][1] :]
        if not (graw.startswith(pre) and graw.endswith(suf) and len(graw) >= len(pre) + len(suf)):
            return "bad", [
                f"expand({sname}) of {text!r} line {n}: {oraw!r} -> {graw!r} does not keep the text before/after the keyword field ({pre!r} ... {suf!r})"
            ]
        if exact and graw != eraw:
            return "bad", [f"expand({sname}) of {text!r} line {n}: {oraw!r} -> {graw!r}, expected {eraw!r}"]
    if not changed and res.text != text:
        return "bad", [f"expand({sname}) of {text!r} without sentinels changed the text to {res.text!r}"]
    return ("rewritten" if changed else "untouched"), []


# build ---------------------------------------------------------------------------------------------

BUILD_ATOMS = ["dev-libs/a", "=dev-libs/a-1.2", ">=dev-libs/c-1:2", "dev-libs/d:3", "~dev-libs/e-1", "=dev-libs/f-1*", "<dev-libs/g-2.0_rc1-r3"]
BUILD_KWS = [[], ["amd64"], ["amd64", "~x86"], ["*"], ["-"], ["^", "arm"]]


def build_entries(tier):
    single = [[a, k] for a in BUILD_ATOMS for k in BUILD_KWS]
    out = [[]] + [[e] for e in single]
    out += [[a, b] for a in single for b in single]
    if tier != "quick":
        small = [[a, k] for a in BUILD_ATOMS[:4] for k in BUILD_KWS[:4]]
        out += [[a, b, c] for a in small for b in small for c in small]
    return out


def check_build(entries):
    from pkgcore.bugzilla.pkglist import PackageList
    from pkgcore.ebuild.atom import atom

    ents = [(atom(a), tuple(k)) for a, k in entries]
    pl = PackageList.build(ents)
    back = [(e.pkg, e.keywords) for e in pl.entries if e.pkg is not None]
    if back != ents or len(pl.entries) != len(ents):
        return [f"build({entries}) -> {pl.text!r} parses back to {[(str(p), k) for p, k in back]}"]
    return []


# ------------------------------------------------------------------------------------------------ runner interface

NTASKS = {"quick": 64, "thorough": 256}


def tasks(tier):
    return [("texts", tier, i) for i in range(NTASKS[tier])] + [("build", tier, i) for i in range(8)]


def _snames(tier):
    return SUGGESTS[:4] if tier == "quick" else SUGGESTS


def work(task):
    kind, tier, idx = task
    classes, viol, samples = {}, [], []
    evals = 0

    def cls(k):
        classes[k] = classes.get(k, 0) + 1

    if kind == "build":
        for j, ents in enumerate(build_entries(tier)):
            if j % 8 != idx:
                continue
            evals += 1
            msgs = check_build(ents)
            cls(f"build:{len(ents)}:{'bad' if msgs else 'ok'}")
            if msgs:
                viol.append({"kind": "build", "entries": ents, "msg": msgs[0]})
        return {"evals": evals, "classes": classes, "viol": viol, "samples": [{"build": build_entries(tier)[idx + 1]}]}
    n = NTASKS[tier]
    mine = [(t, blk[0] == "atomdep") for j, blk in enumerate(blocks(tier)) if j % n == idx for t in block_texts(tier, blk)]
    for text, atomdep in mine:
        sc = sentinel_class(text)
        evals += 1
        msgs = check_parse(text)
        cls(f"parse:{'bad' if msgs else 'ok'}")
        if msgs:
            viol.append({"kind": "parse", "text": text, "msg": msgs[0]})
            continue
        evals += 1
        msgs = check_with_keywords(text)
        cls(f"with_keywords:{'bad' if msgs else 'ok'}")
        if msgs:
            viol.append({"kind": "with_keywords", "text": text, "msg": msgs[0]})
        for sname in ("byatom", "one") if atomdep else _snames(tier):
            evals += 1
            outcome, msgs = check_expand(text, sname)
            cls(f"expand:{sc}:{'nosug' if sname == 'none' else 'atomsug' if sname == 'byatom' else 'sug'}:{outcome}")
            if msgs:
                viol.append({"kind": "expand", "text": text, "suggest": sname, "msg": msgs[0]})
        if len(samples) < 2 and sc not in ("plain",) and len(text) > 20:
            samples.append({"text": text})
    viol.sort(key=lambda c: len(c.get("text", "")))
    return {"evals": evals, "classes": classes, "viol": viol, "samples": samples}


def replay(case):
    k = case["kind"]
    if k == "build":
        return check_build(case["entries"])
    if k == "parse":
        return check_parse(case["text"])
    if k == "with_keywords":
        return check_with_keywords(case["text"])
    return check_expand(case["text"], case["suggest"])[1]


CLASSIFIERS = {}
