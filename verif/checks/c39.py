"""C39 bug update list changes compose like applying them in sequence; wire payload == fields set.

Part A (ListChange.__or__): every ordered pair (x, y) of list changes over a small value alphabet is combined with
the real ``x | y``; the *wire form* (``to_wire()``) of x, y and x|y is applied to every initial list by a reference
model of Bugzilla's list update (A11: ``set`` replaces; otherwise remove the listed values, then append the added
values that are not already present; survivors keep their order).  Required:
``apply(wire(x|y), L) == apply(wire(y), apply(wire(x), L))`` for every L, or ``x | y`` raises BugzillaUsageError.

Part B (BugUpdate.to_wire): every combination of up to k fields (each with a few values) is set on a BugUpdate; the
payload keys must be exactly {"ids"} + the wire names of the fields set, each with the value that was set.
"""

import itertools

PROPERTY = "C39"
LEVEL = "exploration"
ENGINE = "enum"
TECHNIQUE = "bounded exhaustive enumeration of change pairs x initial lists against a reference Bugzilla list-update model"
RULE = (
    "all ordered pairs of ListChange values (empty, add, remove, add+remove, set over ordered tuples of a 3-4 value "
    "alphabet, str and int valued) combined with the real `|`; wire forms applied by a reference Bugzilla list-update "
    "model to every duplicate-free ordered initial list over the alphabet plus one outside value; plus every BugUpdate "
    "with up to k fields set, wire keys/values compared with the fields set. A class is (kind of x, kind of y, outcome) "
    "for pairs and (number of fields set, outcome) for updates; distinct_nontrivial counts classes observed."
)
ASSUMPTIONS = [
    "Reference Bugzilla list semantics (DESIGN A11): {'set': S} replaces the list by S; otherwise the 'remove' values are "
    "removed and then the 'add' values not already present are appended; order of survivors preserved",
    "Excl: initial lists and change tuples containing duplicate values (Bugzilla multi-value fields are sets)",
    "Excl: mixing int and str spellings of the same value inside one pair (to_wire stringifies; 1 vs '1' is not decided here)",
    "A field of BugUpdate counts as 'set' iff it was passed a value other than its default (None / empty ListChange / ()); "
    "ListChange.setting() with no values is an explicit clear and counts as set (pinned by tests/bugzilla/test_changes.py)",
    "field combinations refused by BugUpdate.__post_init__ with BugzillaUsageError are counted, not judged",
]
BOUNDS = {
    "quick": "values {a,b,c}, tuples of length <=2: 47 changes -> 2,209 ordered pairs x 41 duplicate-free initial lists over {a,b,c,d} (len<=3); "
    "the same with int values {1,2,3}; BugUpdate: all 4,043 assignments of <=3 of 17 fields x 1-4 values each",
    "thorough": "values {a,b,c,d}, tuples of length <=3: 254 changes -> 64,516 ordered pairs x 206 initial lists over {a..e} (len<=4), plus the int "
    "alphabet; BugUpdate: all assignments of <=4 of 17 fields x values, plus every larger field subset with the first value (153,265)",
}

# ---------------------------------------------------------------------------------------------- part A: alphabet


def _tuples(vals, maxlen):
    out = []
    for n in range(0, maxlen + 1):
        out.extend(itertools.permutations(vals, n))
    return out


def changes(vals, maxlen):
    """All change specs [add, remove, replace|None] over ordered duplicate-free tuples, simplest first."""
    tups = _tuples(vals, maxlen)
    out = [[[], [], None]]
    for t in tups:
        if t:
            out.append([list(t), [], None])
    for t in tups:
        if t:
            out.append([[], list(t), None])
    for t in tups:
        out.append([[], [], list(t)])
    for a in tups:
        for r in tups:
            if a and r and not set(a) & set(r) and len(a) + len(r) <= maxlen + 1:
                out.append([list(a), list(r), None])
    return out


def initial_lists(vals, maxlen):
    return [list(t) for t in _tuples(vals, maxlen)]


def params(tier):
    if tier == "quick":
        return [("s", ["a", "b", "c"], 2, ["a", "b", "c", "d"], 3), ("i", [1, 2, 3], 2, [1, 2, 3, 4], 3)]
    return [("s", ["a", "b", "c", "d"], 3, ["a", "b", "c", "d", "e"], 4), ("i", [1, 2, 3], 2, [1, 2, 3, 4], 3)]


# ---------------------------------------------------------------------------------------------- part A: reference


def ref_apply(wire, lst):
    """Bugzilla's list update applied to the stored (string) list."""
    if "set" in wire:
        return list(wire["set"])
    out = [v for v in lst if v not in wire.get("remove", [])]
    for v in wire.get("add", []):
        if v not in out:
            out.append(v)
    return out


def kind(spec):
    add, rem, rep = spec
    if rep is not None:
        return "set0" if not rep else "set"
    if add and rem:
        return "addrm"
    if add:
        return "add"
    if rem:
        return "rm"
    return "empty"


def _mk(spec):
    from pkgcore.bugzilla.changes import ListChange

    add, rem, rep = spec
    return ListChange(add=tuple(add), remove=tuple(rem), replace=None if rep is None else tuple(rep))


def check_pair(xs, ys, lists):
    """Returns (outcome, msgs, failing_list)."""
    from pkgcore.bugzilla.errors import BugzillaUsageError

    x, y = _mk(xs), _mk(ys)
    try:
        z = x | y
    except BugzillaUsageError:
        return "refused", [], None
    wx, wy, wz = x.to_wire(), y.to_wire(), z.to_wire()
    for w in (wx, wy, wz):
        if not isinstance(w, dict) or set(w) - {"add", "remove", "set"} or ("set" in w and len(w) > 1):
            return "bad-wire", [f"malformed wire form {w!r}"], None
    for lst in lists:
        start = [str(v) for v in lst]
        seq = ref_apply(wy, ref_apply(wx, start))
        comb = ref_apply(wz, start)
        if seq != comb:
            what = "content" if sorted(seq) != sorted(comb) else "order"
            return (
                "differs-" + what,
                [
                    f"x={wx} y={wy} x|y={wz} on list {start}: applying x then y gives {seq}, "
                    f"applying x|y gives {comb}"
                ],
                lst,
            )
    # the merged change inside a BugUpdate must be emitted iff it does something
    from pkgcore.bugzilla.changes import BugUpdate

    wire = BugUpdate(cc=z).to_wire([1])
    does = bool(wz)
    if ("cc" in wire) != does or (does and wire["cc"] != wz):
        return "bad-update", [f"BugUpdate(cc=x|y) payload {wire} for x|y={wz}"], None
    return "ok", [], None


# ---------------------------------------------------------------------------------------------- part B: BugUpdate

# field -> list of JSON-able value specs (decoded by _val)
FIELD_VALUES = {
    "status": ["CONFIRMED", "RESOLVED", "VERIFIED"],
    "resolution": ["FIXED", "DUPLICATE"],
    "dupe_of": [7],
    "summary": ["s", ""],
    "assigned_to": ["m@g.o"],
    "whiteboard": ["wb", ""],
    "deadline": ["2026-01-02"],
    "cc": [[["a"], [], None], [[], ["a"], None], [[], [], []], [[], [], ["a", "b"]]],
    "keywords": [[["K"], ["L"], None], [[], [], []]],
    "blocks": [[[1, 2], [], None]],
    "depends_on": [[[], [3], None]],
    "see_also": [[["https://x/1"], [], None]],
    "groups": [[[], [], ["g"]]],
    "flags": [[["sanity-check", "+", None]], [["sanity-check", "X", None], ["f2", "?", "r@g.o"]]],
    "comment": [["hello", False], ["", True]],
    "package_list": ["dev-libs/a amd64\n", ""],
    "runtime_testing_required": ["Yes", "---"],
}
FIELDS = list(FIELD_VALUES)
LIST_FIELDS = ("cc", "keywords", "blocks", "depends_on", "see_also", "groups")
WIRE_NAME = {"package_list": "cf_stabilisation_atoms", "runtime_testing_required": "cf_runtime_testing_required"}


def _val(field, spec):
    import datetime

    from pkgcore.bugzilla import changes as C
    from pkgcore.bugzilla import enums as E
    from pkgcore.bugzilla.pkglist import PackageList

    if field == "status":
        return E.Status(spec)
    if field == "resolution":
        return E.Resolution(spec)
    if field == "deadline":
        return datetime.date.fromisoformat(spec)
    if field in LIST_FIELDS:
        return _mk(spec)
    if field == "flags":
        return tuple(C.FlagChange(n, E.FlagStatus(s), r) for n, s, r in spec)
    if field == "comment":
        return C.NewComment(spec[0], is_private=spec[1])
    if field == "package_list":
        return PackageList(spec)
    if field == "runtime_testing_required":
        return E.RuntimeTesting(spec)
    return spec


def _expected_wire_value(field, spec):
    """Independent rendering of what Bugzilla should receive for the value."""
    if field in LIST_FIELDS:
        add, rem, rep = spec
        if rep is not None:
            return {"set": [str(v) for v in rep]}
        w = {}
        if add:
            w["add"] = [str(v) for v in add]
        if rem:
            w["remove"] = [str(v) for v in rem]
        return w
    if field == "flags":
        out = []
        for n, s, r in spec:
            d = {"name": n, "status": s}
            if r is not None:
                d["requestee"] = r
            out.append(d)
        return out
    if field == "comment":
        d = {"body": spec[0]}
        if spec[1]:
            d["is_private"] = True
        return d
    return spec


def _is_set(field, spec):
    if field in LIST_FIELDS:
        add, rem, rep = spec
        return bool(add or rem or rep is not None)
    return True


def check_update(assign, ids):
    """assign: list of [field, value-spec]. Returns (outcome, msgs)."""
    from pkgcore.bugzilla.changes import BugUpdate
    from pkgcore.bugzilla.errors import BugzillaUsageError

    try:
        kwargs = {f: _val(f, s) for f, s in assign}
        upd = BugUpdate(**kwargs)
    except BugzillaUsageError:
        return "refused-combination", []
    try:
        wire = upd.to_wire(ids)
    except BugzillaUsageError:
        if not ids:
            return "refused-no-ids", []
        return "bad", [f"to_wire({ids}) refused for {assign}"]
    if not ids:
        return "bad", [f"to_wire([]) returned {wire} instead of refusing"]
    exp = {"ids": [int(i) for i in ids]}
    for f, s in assign:
        if _is_set(f, s):
            exp[WIRE_NAME.get(f, f)] = _expected_wire_value(f, s)
    msgs = []
    if set(wire) != set(exp):
        missing = sorted(set(exp) - set(wire))
        extra = sorted(set(wire) - set(exp))
        msgs.append(f"BugUpdate({assign}).to_wire keys: missing {missing}, unexpected {extra}")
    else:
        for k in exp:
            got = wire[k]
            if hasattr(got, "value") and not isinstance(got, (str, int)):
                got = got.value
            if got != exp[k]:
                msgs.append(f"BugUpdate({assign}).to_wire[{k!r}] = {wire[k]!r}, expected {exp[k]!r}")
                break
    return ("ok" if not msgs else "bad"), msgs


def update_assignments(tier):
    """Yield assignments (lists of [field, spec]) simplest first."""
    kmax = 3 if tier == "quick" else 4
    for k in range(0, kmax + 1):
        for fs in itertools.combinations(FIELDS, k):
            for vals in itertools.product(*(FIELD_VALUES[f] for f in fs)):
                yield [[f, v] for f, v in zip(fs, vals)]
    if tier != "quick":
        for k in range(kmax + 1, len(FIELDS) + 1):
            for fs in itertools.combinations(FIELDS, k):
                yield [[f, FIELD_VALUES[f][0]] for f in fs]


# ---------------------------------------------------------------------------------------------- runner interface

PAIR_CHUNK = {"quick": 5, "thorough": 4}
UPD_CHUNKS = {"quick": 16, "thorough": 64}


def tasks(tier):
    out = []
    for tag, vals, maxlen, lvals, lmax in params(tier):
        n = len(changes(vals, maxlen))
        step = PAIR_CHUNK[tier]
        for lo in range(0, n, step):
            out.append(("pairs", tier, tag, lo, min(n, lo + step)))
    for i in range(UPD_CHUNKS[tier]):
        out.append(("updates", tier, i))
    return out


def work(task):
    classes, viol, samples = {}, [], []
    evals = 0
    if task[0] == "pairs":
        _, tier, tag, lo, hi = task
        (p,) = [p for p in params(tier) if p[0] == tag]
        _, vals, maxlen, lvals, lmax = p
        chs = changes(vals, maxlen)
        lists = initial_lists(lvals, lmax)
        for i in range(lo, hi):
            xs = chs[i]
            for ys in chs:
                outcome, msgs, lst = check_pair(xs, ys, lists)
                evals += len(lists) if outcome in ("ok",) else 1
                k = f"pair:{kind(xs)}|{kind(ys)}:{outcome}"
                classes[k] = classes.get(k, 0) + 1
                if msgs:
                    viol.append({"kind": "pair", "x": xs, "y": ys, "list": lst, "msg": msgs[0]})
        samples = [{"x": chs[lo], "y": chs[(lo * 7 + 3) % len(chs)]}]
        # simplest first: order candidate violations by size
        viol.sort(key=lambda c: (len(repr(c["x"])) + len(repr(c["y"])) + len(repr(c["list"]))))
    else:
        _, tier, idx = task
        n = UPD_CHUNKS[tier]
        for j, assign in enumerate(update_assignments(tier)):
            if j % n != idx:
                continue
            for ids in ([1], [1, 22]) if len(assign) <= 2 else ([1],):
                outcome, msgs = check_update(assign, ids)
                evals += 1
                k = f"update:{min(len(assign), 5)}fields:{outcome}"
                classes[k] = classes.get(k, 0) + 1
                if msgs:
                    viol.append({"kind": "update", "assign": assign, "ids": ids, "msg": msgs[0]})
            if len(assign) <= 1:
                outcome, msgs = check_update(assign, [])
                evals += 1
                classes[f"update:{outcome}"] = classes.get(f"update:{outcome}", 0) + 1
                if msgs:
                    viol.append({"kind": "update", "assign": assign, "ids": [], "msg": msgs[0]})
            if len(samples) < 1 and len(assign) == 2:
                samples.append({"assign": assign})
    return {"evals": evals, "classes": classes, "viol": viol, "samples": samples}


def replay(case):
    if case["kind"] == "pair":
        lists = [case["list"]] if case.get("list") is not None else [[]]
        return check_pair(case["x"], case["y"], lists)[1]
    return check_update(case["assign"], case["ids"])[1]


# ---------------------------------------------------------------------------------------------- known findings


def _set_on_left_lost(case):
    """x carries a `set`, y does not (y is add/remove/empty): `x | y` forgets x's set."""
    return case.get("kind") == "pair" and case["x"][2] is not None and case["y"][2] is None


CLASSIFIERS = {"set-on-left-dropped": _set_on_left_lost}
