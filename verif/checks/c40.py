"""C40 keywording / stabilization requests only name valid, narrowed, not-yet-present arches.

A small repository (package a/p, versions 1 and 2 (and 3), every combination of per-version KEYWORDS from an alphabet
with stable/testing/prefix/-*/unknown keywords) is built from FakePkg objects; every request list of 1-2 lines
(spec x written keywords incl. the `*`, `^`, `-` sentinels and a bogus arch) is resolved with the real
keywording.match_packages under every option combination (stable, cc_arches, filter_arch, only_new, allarches).
The request iterator is instrumented so that every yielded KeywordRequest is attributed to the line that produced it.
Each yielded request is judged against the statement; explicit-only requests are additionally compared with the
documented narrowing pipeline; suggested_keywords is judged directly for every version.
"""

import itertools

PROPERTY = "C40"
LEVEL = "exploration"
ENGINE = "enum"
TECHNIQUE = "bounded exhaustive enumeration of repositories x request lists x options with per-request constraint oracle"
RULE = (
    "all (repository, request list, options) triples: repositories = per-version KEYWORDS combinations of package a/p; request "
    "lists = 1-2 lines of (spec, written keywords with sentinels); options = stable x cc_arches x filter_arch x only_new x allarches; "
    "match_packages is run to exhaustion or exception and every yielded request is checked (known arches, cc/filter/only-new "
    "narrowing, prefix arches only when written, stabilization suggestions within testing-here & stable-elsewhere, bad specs "
    "rejected when stabilizing); suggested_keywords checked per version. A class is (mode, lines, final outcome); "
    "distinct_nontrivial counts classes observed."
)
ASSUMPTIONS = [
    "cc_arches only holds arches known to the repository (Bug.match_packages filters CC through repo.known_arches)",
    "allarches (effective only with stable and a non-empty filter_arch, per docstring) may re-add the stabilization candidates "
    "of the package on top of the cc/filter narrowing; those candidates must themselves satisfy the suggestion rule",
    "a prefix arch (one containing '-') may be named only if it was written on the line (or on an earlier line that `^` can copy)",
    "`^` may copy from any earlier line (which line counts as 'the line above' after skipped lines is not decided here)",
    "for keywording (stable=False) the statement limits `*` suggestions only to known, non-prefix arches",
    "exact comparison (explicit known keywords only, valid matching specs, allarches not effective) follows the parameter "
    "descriptions of the match_packages docstring: strip '~'; no keywords -> cc_arches; else narrow to cc_arches and skip if "
    "nothing is left; only_new drops carried arches (keywording: also ~arch); filter_arch keeps the listed ones; compared as sets",
    "Excl: a version carrying both arch and ~arch; live packages; duplicate keywords on a line",
    "the final exception is judged only for bad specs under stable (PackageInvalid, no request from that line on)",
    "Excl (arguable, reported as an observation): a line whose `*` expands to nothing is handled by match_packages like a line "
    "without keywords and inherits cc_arches, whereas PackageList.expand documents that situation as `-` (skip the line)",
]
BOUNDS = {
    "quick": "49+6 repositories (7x7 keyword sets on versions 1,2, plus 6 where a version carries an arch missing from known_arches) x 66 single-line requests (6 specs x 11 keyword lists) + 18 repositories x 132 "
    "two-line requests = 6,006 (repository, request) cases x 32 option sets = 192k match_packages runs; suggested_keywords on every version",
    "thorough": "144+6 two-version + 125 three-version repositories x 84 single lines + 42 repositories x 210 two-line requests = 31,920 cases x 72 "
    "option sets = 2.3M match_packages runs",
}

KNOWN = ["amd64", "x86", "arm", "x86-macos"]

KSETS = [
    [],
    ["amd64"],
    ["~amd64"],
    ["amd64", "~x86"],
    ["~amd64", "~x86"],
    ["~amd64", "x86-macos"],
    ["~amd64", "~x86-macos", "x86"],
    # thorough only below
    ["amd64", "x86"],
    ["amd64", "x86-macos"],
    ["-*", "~amd64"],
    ["~x86", "-amd64"],
    ["~amd64", "ppc"],
    # "ppc" is not in known_arches (a stale/overlay arch): stable elsewhere / testing here, so that `*` would suggest it
    ["amd64", "ppc"],
    ["~amd64", "~ppc"],
]
UNK_A, UNK_B = ["amd64", "ppc"], ["~amd64", "~ppc"]
# repositories in which `*` (stabilizing or keywording) is drawn towards the unknown arch
UNKNOWN_ARCH_REPOS = [
    [["1", UNK_A], ["2", UNK_B]],
    [["1", UNK_B], ["2", UNK_A]],
    [["1", UNK_A], ["2", ["~amd64"]]],
    [["1", ["~amd64"]], ["2", UNK_A]],
    [["1", UNK_A], ["2", []]],
    [["1", ["ppc"]], ["2", ["~ppc", "~x86"]]],
]
SPECS = ["=a/p-2", "=a/p-1", "a/p", "a/p:0", ">=a/p-1", "=a/p-2:0"]
SPECS_T = SPECS + ["=a/p-9"]
KWS = [[], ["amd64"], ["~x86"], ["*"], ["^"], ["-"], ["bogus"], ["amd64", "x86"], ["*", "arm"], ["x86-macos"], ["^", "arm"]]
KWS_T = KWS + [["~amd64", "x86-macos"]]


def option_sets(tier):
    ccs = [[], ["amd64"]] if tier == "quick" else [[], ["amd64"], ["x86", "amd64"]]
    fas = [[], ["x86"]] if tier == "quick" else [[], ["x86"], ["amd64", "bogus"]]
    out = []
    for stable in (True, False):
        for cc in ccs:
            for fa in fas:
                for on in (False, True):
                    for aa in (False, True):
                        out.append({"stable": stable, "cc": cc, "filter": fa, "only_new": on, "allarches": aa})
    return out


def repos(tier, small=False):
    if tier == "quick":
        ks = KSETS[:7] if not small else [KSETS[i] for i in (1, 3, 4, 6)]
        return [[["1", a], ["2", b]] for a in ks for b in ks] + (UNKNOWN_ARCH_REPOS[:2] + ONE_VERSION_REPOS[1:2] if small else UNKNOWN_ARCH_REPOS + ONE_VERSION_REPOS)
    if small:
        ks = [KSETS[i] for i in (1, 3, 4, 6, 9, 11)]
        return [[["1", a], ["2", b]] for a in ks for b in ks] + UNKNOWN_ARCH_REPOS + ONE_VERSION_REPOS[:2]
    out = [[["1", a], ["2", b]] for a in KSETS[:12] for b in KSETS[:12]] + UNKNOWN_ARCH_REPOS + ONE_VERSION_REPOS
    ks3 = [KSETS[i] for i in (0, 1, 4, 5, 6)]
    out += [[["1", a], ["2", b], ["3", c]] for a in ks3 for b in ks3 for c in ks3]
    return out


# non-exact specs that admit exactly one version of the two-version repositories (and a/p on a one-version repository):
# a stabilization must still refuse them, keywording accepts them
ONE_HIT_SPECS = [">a/p-1", "<a/p-2", "~a/p-2", "=a/p-2*", ">=a/p-2"]
ONE_VERSION_REPOS = [[["1", ["amd64"]]], [["1", ["~amd64", "~x86"]]], [["2", ["amd64", "~x86"]]], [["2", []]]]


def single_lines(tier):
    sp, kw = (SPECS, KWS) if tier == "quick" else (SPECS_T, KWS_T)
    kw1 = [["amd64"], ["*"], [], ["~x86"]] if tier == "quick" else kw
    return [[[s, k]] for s in sp for k in kw] + [[[s, k]] for s in ONE_HIT_SPECS for k in kw1]


def double_lines(tier):
    if tier == "quick":
        first = [["=a/p-1", k] for k in ([], ["amd64"], ["~x86", "amd64"], ["*"], ["-"], ["x86-macos"], ["arm"])] + [["a/p", ["amd64"]], [">=a/p-1", ["x86"]], ["=a/p-2", ["*"]], ["a/p", ["*"]]]
        second = [["=a/p-2", k] for k in KWS] + [["=a/p-1", ["^"]], ["~a/p-2", ["^"]], [">a/p-1", ["^"]], ["a/p", ["^"]]]
    else:
        first = [["=a/p-1", k] for k in KWS_T if k != ["^"]] + [["a/p", ["amd64"]], [">=a/p-1", ["x86"]], ["=a/p-2", ["*"]], ["a/p", ["*"]]]
        second = [["=a/p-2", k] for k in KWS_T] + [["a/p:0", ["^"]], ["=a/p-1", ["^"]], ["~a/p-2", ["^"]], [">a/p-1", ["^"]], ["a/p", ["^"]], ["=a/p-2*", ["^"]]]
    return [[a, b] for a in first for b in second]


# ------------------------------------------------------------------------------------------------ reference helpers


def arch_of(k):
    return k[1:] if k.startswith("~") else k


def ref_stable_candidates(repo, ver):
    """arches that are testing on this version and stable on another one; never a prefix arch"""
    here = dict(repo)[ver]
    testing = {k[1:] for k in here if k.startswith("~")}
    stable_elsewhere = {k for v, ks in repo if v != ver for k in ks if not k.startswith(("~", "-"))}
    return {a for a in testing & stable_elsewhere if "-" not in a}


def spec_ok_for_stable(spec):
    return spec.startswith("=") and ":" not in spec and not spec.endswith("*")


def ref_spec_matches(spec, ver):
    """does the spec (over package a/p, integer versions without revisions, every version in slot 0) admit this version"""
    body = spec.split(":")[0]
    if body == "a/p":
        return True
    for op in (">=", "<=", "=", "~", ">", "<"):
        if body.startswith(op):
            arg = body[len(op) + len("a/p-") :]
            if op == "=" and arg.endswith("*"):
                return ver.startswith(arg[:-1])
            a, v = int(arg), int(ver)
            return {">=": v >= a, "<=": v <= a, "=": v == a, "~": v == a, ">": v > a, "<": v < a}[op]
    raise AssertionError(spec)


def ref_version_for(repo, spec):
    """the version a spec resolves to, per the docstrings (newest keyworded version among those matched, else the newest)"""
    cands = sorted((v for v, _ in repo if ref_spec_matches(spec, v)), key=int, reverse=True)
    for v in cands:
        if dict(repo)[v]:
            return v
    return cands[0] if cands else None


def ref_exact(repo, lines, o):
    """Expected yields [(version, set(arches))] for explicit-only requests, or None when the case is outside the exact model."""
    if o["allarches"] and o["stable"] and o["filter"]:
        return None
    out = []
    for spec, written in lines:
        if o["stable"] and not spec_ok_for_stable(spec):
            return None
        ver = ref_version_for(repo, spec)
        if ver is None:
            return None
        kws = [arch_of(k) for k in written]
        if any(k in ("*", "^", "-") or k not in KNOWN for k in kws) or len(set(kws)) != len(kws):
            return None
        here = dict(repo)[ver]
        if not kws:
            kws = list(o["cc"])
            if not kws:
                out.append((ver, set()))
                continue
        elif o["cc"]:
            kws = [k for k in kws if k in o["cc"]]
            if not kws:
                continue
        if o["only_new"]:
            kws = [k for k in kws if k not in here and (o["stable"] or "~" + k not in here)]
            if not kws:
                continue
        if o["filter"]:
            kws = [k for k in kws if k in o["filter"]]
            if not kws:
                continue
        out.append((ver, set(kws)))
    return out


# ------------------------------------------------------------------------------------------------ real side


def make_repo(repo):
    from pkgcore.test.misc import FakePkg, FakeRepo

    pkgs = [FakePkg(f"a/p-{v}", keywords=tuple(ks)) for v, ks in repo]
    r = FakeRepo(pkgs=pkgs, repo_id="c40")
    r.known_arches = frozenset(KNOWN)
    return r


_repo_cache = {}


def _get_repo(repo):
    key = repr(repo)
    r = _repo_cache.get(key)
    if r is None:
        if len(_repo_cache) > 64:
            _repo_cache.clear()
        r = _repo_cache[key] = make_repo(repo)
    return r


def run_real(repo, lines, o):
    """-> (yields [(line index, version, keywords)], exception or None)"""
    from pkgcore.bugzilla.pkglist import parse_atom
    from pkgcore.ebuild import keywording as K

    r = _get_repo(repo)
    cursor = [-1]

    def feed():
        for i, (spec, written) in enumerate(lines):
            cursor[0] = i
            yield parse_atom(spec), tuple(written)

    ys = []
    exc = None
    try:
        for req in K.match_packages(
            r, feed(), stable=o["stable"], cc_arches=tuple(o["cc"]), only_new=o["only_new"], filter_arch=tuple(o["filter"]), allarches=o["allarches"]
        ):
            ys.append((cursor[0], req.pkg.fullver, list(req.keywords)))
    except (K.PackageMatchException, K.KeywordNoneLeft) as e:
        exc = e
    except Exception as e:  # noqa: BLE001 - reported, not swallowed
        exc = e
    return ys, exc


def check_match(repo, lines, o, tolerate_allarches_unknown=False):
    """-> (class, msgs); the flag is used by a known-finding classifier only"""
    from pkgcore.ebuild import keywording as K

    ys, exc = run_real(repo, lines, o)
    what = f"repo a/p {repo}; request {lines}; options {o}"
    ename = type(exc).__name__ if exc is not None else "done"
    if exc is not None and not isinstance(exc, (K.PackageMatchException, K.KeywordNoneLeft)):
        return "crash", [f"{what}: unexpected {ename}: {exc}"]
    msgs = []
    kwmap = dict(repo)
    aa_eff = o["allarches"] and o["stable"] and bool(o["filter"])
    # bad specs under stable
    if o["stable"]:
        bad = [i for i, (spec, _) in enumerate(lines) if not spec_ok_for_stable(spec)]
        if bad:
            i = bad[0]
            if exc is None:
                msgs.append(f"{what}: line {i + 1} is not an exact unslotted = spec but the request was resolved: {ys}")
            elif any(li >= i for li, _, _ in ys):
                msgs.append(f"{what}: a request was produced from line {i + 1} on although its spec cannot be stabilized: {ys}")
            elif i == 0 and not isinstance(exc, K.PackageInvalid):
                msgs.append(f"{what}: expected PackageInvalid for line 1, got {ename}")
    # what `^` on line i may copy: everything any earlier line could legitimately have asked for (a superset)
    feed = []
    for spec, written in lines:
        a = {arch_of(k) for k in written} - {"*", "^", "-"}
        if not written:
            a |= set(o["cc"])
        if "*" in written:
            a |= set(o["cc"])
            if o["stable"]:
                for v, _ in repo:
                    a |= ref_stable_candidates(repo, v)
            else:
                a |= {x for x in KNOWN if "-" not in x}
        if "^" in written:
            for prev in feed:
                a |= prev
        feed.append(a)
    for li, ver, kws in ys:
        spec, written = lines[li]
        here = kwmap.get(ver)
        if here is None:
            msgs.append(f"{what}: yielded version {ver} is not in the repository")
            break
        req = f"line {li + 1} -> a/p-{ver} {kws}"
        cands = ref_stable_candidates(repo, ver)
        extra = cands if aa_eff else set()
        for k in kws:
            if k not in KNOWN and not (tolerate_allarches_unknown and k in extra and k not in {arch_of(w) for w in written}):
                msgs.append(f"{what}: {req} names {k!r}, not a known arch")
            if o["cc"] and k not in o["cc"] and k not in extra:
                msgs.append(f"{what}: {req} names {k!r} outside cc_arches")
            if o["filter"] and k not in o["filter"] and k not in extra:
                msgs.append(f"{what}: {req} names {k!r} outside filter_arch")
            if o["only_new"] and (k in here or (not o["stable"] and "~" + k in here)):
                msgs.append(f"{what}: {req} names {k!r} which a/p-{ver} {sorted(here)} already carries (only_new)")
        allowed = {arch_of(k) for k in written} - {"*", "^", "-"}
        if not written:
            allowed |= set(o["cc"])
        if "*" in written:
            allowed |= cands if o["stable"] else {a for a in KNOWN if "-" not in a}
            # arguable, not judged: a `*` that expands to nothing leaves the line without keywords and match_packages then
            # lets it inherit cc_arches (PackageList.expand documents the same situation as `-`, i.e. skip the line)
            if not allowed or not o["stable"]:
                allowed |= set(o["cc"])
        if "^" in written:
            for prev in feed[:li]:
                allowed |= prev
        for k in kws:
            if k not in allowed and k not in extra:
                why = "a prefix arch nobody wrote" if "-" in k else "not written, not a permitted suggestion"
                if o["stable"] and "*" in written:
                    why += f" (testing on a/p-{ver} and stable on another version: {sorted(cands)})"
                msgs.append(f"{what}: {req} names {k!r}: {why}")
        if msgs:
            break
    mode = "constraints"
    if not msgs:
        exp = ref_exact(repo, lines, o)
        if exp is not None:
            mode = "exact"
            got = [(ver, set(kws)) for _, ver, kws in ys]
            if got != exp or any(len(set(k)) != len(k) for _, _, k in ys):
                msgs.append(f"{what}: resolved to {[(v, k) for _, v, k in ys]} (then {ename}), the documented narrowing gives {[(v, sorted(k)) for v, k in exp]}")
    return f"{mode}:{'st' if o['stable'] else 'kw'}:{len(lines)}L:{ename}", msgs


def check_suggest(repo):
    """suggested_keywords on every version, both modes -> msgs"""
    from pkgcore.ebuild import keywording as K
    from pkgcore.ebuild.atom import atom

    r = _get_repo(repo)
    msgs = []
    for ver, here in repo:
        pkg = r.match(atom(f"=a/p-{ver}"))[0]
        for stable in (True, False):
            got = K.suggested_keywords(r, pkg, stable=stable)
            what = f"repo a/p {repo}: suggested_keywords(a/p-{ver}, stable={stable}) = {sorted(got)}"
            bad = [k for k in got if "-" in k or k.startswith("~")]
            if bad:
                msgs.append(f"{what} names prefix/decorated keyword(s) {bad}")
            if stable:
                cands = ref_stable_candidates(repo, ver)
                if not set(got) <= cands:
                    msgs.append(f"{what}, but only {sorted(cands)} are testing here and stable on another version")
    return msgs


# ------------------------------------------------------------------------------------------------ runner interface

NT = {"quick": 96, "thorough": 384}


def tasks(tier):
    return [("m", tier, i) for i in range(NT[tier])]


def _cases(tier):
    """(repo, lines) pairs; options are looped inside"""
    sl = single_lines(tier)
    for repo in repos(tier):
        yield repo, None
        for lines in sl:
            yield repo, lines
    dl = double_lines(tier)
    for repo in repos(tier, small=True):
        for lines in dl:
            yield repo, lines


def work(task):
    _, tier, idx = task
    n = NT[tier]
    opts = option_sets(tier)
    classes, viol, samples = {}, [], []
    evals = 0
    for j, (repo, lines) in enumerate(_cases(tier)):
        if j % n != idx:
            continue
        if lines is None:
            evals += 2 * len(repo)
            msgs = check_suggest(repo)
            k = "suggest:" + ("bad" if msgs else "ok")
            classes[k] = classes.get(k, 0) + 1
            if msgs:
                viol.append({"kind": "suggest", "repo": repo, "msg": msgs[0]})
            continue
        for o in opts:
            evals += 1
            k, msgs = check_match(repo, lines, o)
            classes[k] = classes.get(k, 0) + 1
            if msgs:
                viol.append({"kind": "match", "repo": repo, "lines": lines, "opts": o, "msg": msgs[0]})
        if len(samples) < 2 and len(lines) == 2:
            samples.append({"repo": repo, "lines": lines, "opts": opts[5]})
    import json

    viol.sort(key=lambda c: len(json.dumps(c)))
    return {"evals": evals, "classes": classes, "viol": viol, "samples": samples}


def replay(case):
    if case["kind"] == "suggest":
        return check_suggest(case["repo"])
    return check_match(case["repo"], case["lines"], case["opts"])[1]


def _allarches_readds_unknown(case):
    """allarches (stable, with a filter_arch) re-adds the package's stabilization candidates after the unknown-arch check, so a
    candidate arch that is missing from known_arches is named.  True only if allarches is effective and the case holds once
    exactly those re-added, unwritten, unknown candidate arches are tolerated."""
    if case.get("kind") != "match":
        return False
    o = case["opts"]
    if not (o["allarches"] and o["stable"] and o["filter"]):
        return False
    return not check_match(case["repo"], case["lines"], o, tolerate_allarches_unknown=True)[1]


CLASSIFIERS = {"allarches-readds-unknown-arch": _allarches_readds_unknown}
