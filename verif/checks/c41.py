"""C41 parallel map processes every item exactly once under every schedule (E4)."""

import itertools

PROPERTY = "C41"
LEVEL = "exploration"
ENGINE = "sched"
TECHNIQUE = "stateless model checking of the real map_async under a cooperative scheduler, all schedules up to a preemption bound (CHESS-style iterative context bounding)"
RULE = (
    "every schedule of pkgcore.util.thread_pool.map_async (real code, cooperative Thread/Queue/Event/deque stand-ins, one "
    "OS thread per logical thread gated by a baton) up to the stated preemption bound, for each configuration "
    "(items, threads, functor kind, granularity); scheduling points = every Queue.put/get, Event.set/isSet, Thread.start/join, "
    "result append/extend and functor step ('sync'), or additionally every source line of thread_pool.py ('fine'). "
    "Histories: the judged call preceded, in the same process, by a call whose input raises while being fed "
    "('sync-after-feedraise') or by a successful call ('sync-after-ok'); both calls run under the scheduler. "
    "A class is (configuration, observed completion order of items by worker) -- distinct interleaving outcomes."
)
ASSUMPTIONS = [
    "CPython data races below the granularity of a source line (bytecode-level) are not explored; deque.append / list.append are atomic under the GIL",
    "functors are the harness's generator / list / None-returning / raising workers; the raising functor is only checked for termination and at-most-once processing",
    "Queue is unbounded as in map_async; a blocking call made with a timeout may end through its timer (bounded deviation, at most 1 per execution); map_async itself uses no timeouts",
]
BOUNDS = {
    "quick": "timers: at most 1 timer may fire per execution (counts against the bound); sync points: (2 items,2 threads) bound 2; (3,2),(2,3),(1,2),(0,2),(3,1) bound 1; fine (line-level) points: (2,2) bound 1; two-call histories (2,2) bound 1",
    "thorough": "sync points: (2,2) bound 3 for every functor; (3,2),(2,3) bound 2 for gen_all/list/raise1; (3,3) bound 2 and (4,2) bound 1 for gen_all; fine points: (2,2) bound 2 (gen_all, list), (3,2) bound 1; no-len iterable (3,2) bound 2; two-call histories (2,2) bound 2",
}

TIME_CAP = {"thorough": 2400}
FUNCTORS = ("gen_all", "gen_alt", "list", "none", "raise1")


def configs(tier):
    out = []
    if tier == "quick":
        for f in FUNCTORS:
            out.append((2, 2, f, "sync", 2))
        for (n, t) in [(3, 2), (2, 3), (1, 2), (0, 2), (3, 1)]:
            for f in ("gen_all", "list", "raise1"):
                out.append((n, t, f, "sync", 1))
        out.append((2, 2, "gen_all", "fine", 1))
        out.append((2, 2, "list", "fine", 1))
        out.append((2, 2, "gen_all", "sync-nolen", 1))
        out.append((2, 2, "gen_all", "sync-after-feedraise", 1))
        out.append((2, 2, "list", "sync-after-ok", 1))
    else:
        for f in FUNCTORS:
            out.append((2, 2, f, "sync", 3))
        for (n, t) in [(3, 2), (2, 3)]:
            for f in ("gen_all", "list", "raise1"):
                out.append((n, t, f, "sync", 2))
        out.append((3, 3, "gen_all", "sync", 2))
        out.append((4, 2, "gen_all", "sync", 1))
        out.append((2, 2, "gen_all", "fine", 2))
        out.append((2, 2, "list", "fine", 2))
        out.append((3, 2, "gen_all", "fine", 1))
        out.append((3, 2, "gen_all", "sync-nolen", 2))
        out.append((2, 2, "gen_all", "sync-after-feedraise", 2))
        out.append((2, 2, "list", "sync-after-feedraise", 1))
        out.append((2, 2, "gen_all", "sync-after-ok", 2))
    return out


def run_one(cfg, prefix):
    """One execution of map_async under the scheduler.  Returns (points, outcome dict)."""
    import importlib

    from pkgcore.util import thread_pool
    from verif.engines import sched as S

    # every execution starts from fresh module-level state: executions must be independent of one another
    # (a history is explicit, see 'sync-after-*'), otherwise a candidate would not reproduce in a fresh process
    thread_pool = importlib.reload(thread_pool)
    n, nthreads, fkind, gran, _bound = cfg
    fine = ("thread_pool.py",) if gran == "fine" else ()
    sc = S.Scheduler(prefix=prefix, horizon=6000, fine_files=fine)
    th, qu, dq = S.make_namespace(sc)
    processed = []  # (worker ident, item) in completion order
    saved = (thread_pool.threading, thread_pool.queue, thread_pool.deque)
    wid = itertools.count()

    def functor(it, *a, **kw):
        me = next(wid)
        if fkind == "gen_all":
            def g():
                for item in it:
                    sc.point("functor")
                    processed.append((me, item))
                    yield ("r", item)
            return g()
        if fkind == "gen_alt":
            def g():
                for item in it:
                    sc.point("functor")
                    processed.append((me, item))
                    if item % 2 == 0:
                        yield ("r", item)
            return g()
        if fkind == "list":
            out = []
            for item in it:
                sc.point("functor")
                processed.append((me, item))
                out.append(item)
            return ("L", tuple(out)) if out else None
        if fkind == "none":
            for item in it:
                sc.point("functor")
                processed.append((me, item))
            return None
        if fkind == "raise1":
            def g():
                for item in it:
                    sc.point("functor")
                    processed.append((me, item))
                    if item == 1:
                        raise ValueError("boom")
                    yield ("r", item)
            return g()
        raise AssertionError(fkind)

    result = {}

    def functor0(it, *a, **kw):
        for _item in it:
            pass
        return None

    def main():
        items = list(range(n))
        iterable = iter(items) if gran == "sync-nolen" else items
        if gran in ("sync-after-feedraise", "sync-after-ok"):
            # history: an earlier call in the same process (its input raising while being fed, resp. succeeding);
            # the judged call below must be unaffected by it
            def feed():
                yield 100
                if gran == "sync-after-feedraise":
                    raise KeyError("feed")
                yield 101

            try:
                list(thread_pool.map_async(feed(), functor0, threads=nthreads))
            except KeyError:
                pass
        try:
            result["value"] = list(thread_pool.map_async(iterable, functor, threads=nthreads))
        except BaseException as e:  # noqa
            if type(e).__name__ == "_Abort":
                raise
            result["exc"] = repr(e)

    thread_pool.threading, thread_pool.queue, thread_pool.deque = th, qu, dq
    try:
        sc.run(main)
    finally:
        thread_pool.threading, thread_pool.queue, thread_pool.deque = saved
    outcome = {
        "processed": [(w, i if isinstance(i, int) else f"<{type(i).__name__}>") for w, i in processed],
        "value": result.get("value"),
        "exc": result.get("exc"),
        "deadlock": sc.deadlock,
        "error": repr(sc.error) if sc.error else None,
        "worker_exc": [repr(t.exc) for t in sc.threads if t.exc is not None],
    }
    return sc.points, outcome


def judge(cfg, outcome):
    n, nthreads, fkind, gran, _b = cfg
    msgs = []
    if outcome["error"] and ("WallClockTimeout" in outcome["error"] or "ReplayDivergence" in outcome["error"]):
        raise RuntimeError("engine condition, not a verdict: " + outcome["error"])
    if outcome["error"]:
        # engine-level problem (horizon/replay divergence): surfaced as violation of termination only for horizon
        msgs.append(f"execution did not finish: {outcome['error']}")
        return msgs
    if outcome["deadlock"]:
        msgs.append("deadlock: no enabled thread while threads are unfinished")
        return msgs
    items = [i for _w, i in outcome["processed"]]
    if fkind == "raise1":
        if len(items) != len(set(map(str, items))):
            msgs.append(f"item processed more than once: {sorted(items)}")
        if outcome["exc"]:
            msgs.append(f"map_async raised {outcome['exc']}")
        return msgs
    if outcome["exc"]:
        msgs.append(f"map_async raised {outcome['exc']}")
        return msgs
    if any(not isinstance(i, int) for i in items):
        msgs.append(f"worker was handed a non-item object: {items}")
        return msgs
    if sorted(items) != list(range(n)):
        msgs.append(f"items processed {sorted(items)} expected each of {list(range(n))} exactly once")
    val = outcome["value"]
    if val is None:
        msgs.append("no return value")
        return msgs
    if fkind == "gen_all":
        exp = sorted(("r", i) for i in range(n))
        if sorted(val) != exp:
            msgs.append(f"results {sorted(val)} expected {exp}")
    elif fkind == "gen_alt":
        exp = sorted(("r", i) for i in range(n) if i % 2 == 0)
        if sorted(val) != exp:
            msgs.append(f"results {sorted(val)} expected {exp}")
    elif fkind == "list":
        got = sorted(x for v in val for x in v[1])
        if got != list(range(n)) or any(v[0] != "L" or not v[1] for v in val):
            msgs.append(f"results {val} do not partition the items into non-empty lists")
    elif fkind == "none":
        if val:
            msgs.append(f"results {val} expected none")
    return msgs


def _subtree(cfg, root, bound):
    from verif.engines import sched as S

    evals = 0
    classes = {}
    viol = []
    sample = None
    stack = [list(root)]
    while stack:
        prefix = stack.pop()
        points, outcome = run_one(cfg, prefix)
        evals += 1
        k = f"{cfg[0]}x{cfg[1]}/{cfg[2]}/{cfg[3]}:" + ",".join(f"{w}:{i}" for w, i in outcome["processed"])
        classes[k] = classes.get(k, 0) + 1
        for m in judge(cfg, outcome):
            if len(viol) < 10:
                viol.append({"cfg": list(cfg), "schedule": [p[1] for p in points], "msg": m})
        if sample is None:
            sample = {"cfg": list(cfg), "schedule": [p[1] for p in points], "processed": outcome["processed"]}
        stack.extend(S.children(prefix, points, bound))
    return evals, classes, viol, sample


def tasks(tier):
    from verif.engines import sched as S

    out = []
    for cfg in configs(tier):
        bound = cfg[4]
        # expand two levels in the parent to get a balanced partition
        points, _ = run_one(cfg, [])
        lvl1 = S.children([], points, bound)
        out.append(("one", cfg, []))
        for p1 in lvl1:
            out.append(("sub", cfg, p1))
    return out


def work(task):
    kind, cfg, prefix = task
    cfg = tuple(cfg)
    if kind == "one":
        points, outcome = run_one(cfg, prefix)
        # determinism self-test: replaying the recorded schedule gives identical observations
        points2, outcome2 = run_one(cfg, [p[1] for p in points])
        viol = []
        if outcome2 != outcome or [p[1] for p in points2] != [p[1] for p in points]:
            raise RuntimeError(f"replay divergence for {cfg}: {outcome} vs {outcome2}")
        for m in judge(cfg, outcome):
            viol.append({"cfg": list(cfg), "schedule": [p[1] for p in points], "msg": m})
        k = f"{cfg[0]}x{cfg[1]}/{cfg[2]}/{cfg[3]}:" + ",".join(f"{w}:{i}" for w, i in outcome["processed"])
        return {"evals": 2, "classes": {k: 1}, "viol": viol, "samples": [], "counters": {"schedules": 1, "replay_selftests": 1}}
    evals, classes, viol, sample = _subtree(cfg, prefix, cfg[4])
    # keep the class table bounded: collapse to per-config distinct-outcome counts
    per = {}
    for k in classes:
        c = k.split(":", 1)[0]
        per.setdefault(c, set()).add(k)
    small = {}
    for c, ks in per.items():
        for i, k in enumerate(sorted(ks)[:4]):
            small[k] = classes[k]
    return {"evals": evals, "classes": small, "viol": viol, "samples": [sample] if sample else [], "counters": {"schedules": evals, "max_distinct_outcomes_in_subtree": len(classes)}}


def replay(case):
    cfg = tuple(case["cfg"])
    points, outcome = run_one(cfg, case["schedule"])
    return judge(cfg, outcome)


CLASSIFIERS = {}
