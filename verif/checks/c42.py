"""C42 package move updates follow move chains in (chronological) file order.

Seam: ``pkgcore.ebuild.pkg_updates.read_updates(dir, eapi 7)`` on real scratch ``profiles/updates`` directories.
Every directory of a bounded family (quarter-named files, every listing order) is built on tmpfs and the
returned mapping is compared with a sequential reference that never touches pkgcore.
"""

import itertools
import os
import re
import shutil
import signal
import tempfile

PROPERTY = "C42"
LEVEL = "exploration"
ENGINE = "enum"
TECHNIQUE = "bounded exhaustive enumeration of update directories against a sequential reference interpreter"
RULE = (
    "every sequence of update lines (up to the tier's length) over a fixed line alphabet (moves forming chains, 2- and "
    "3-cycles, redundant moves, moves into an already-moved name, slotmoves incl. one versioned atom, and in a separate "
    "part each malformed-line kind inserted at every position) is split in every way into consecutive quarter-named "
    "files, for every chronologically ordered subset of the file-name alphabet and every directory-listing permutation "
    "(listing shimmed); read_updates() is compared with a sequential reference that processes files by (year, quarter). "
    "A class is (number of files, whether lexical and chronological file order differ, chain shape of the longest "
    "reported command list, malformed kind, outcome); distinct_nontrivial counts classes observed."
)
ASSUMPTIONS = [
    "Excl: EAPI 8 free-form update file names (no agreed processing order); only [1-4]Q-yyyy names, read with EAPI 7",
    "an unterminated last line is a normal line; one extra blank line at the end of a file is an empty (skipped) line",
    "Excl: lines with leading/trailing whitespace (logged as an error but processed; the statement does not say whether they count as malformed)",
    "Excl: a slotmove of a name that was first the source of an effective move and later became a move target again "
    "(name reuse is forbidden by PMS; sequential renaming and the 'already moved' rule disagree and the statement is silent) "
    "- such directories are counted in class 'excluded-slotmove-on-reused-name' and not judged",
    "Excl: wrongly named files in the updates directory (not part of the statement)",
    "file order means chronological (year, quarter) order, the only order under which a chain spanning 4Q-2019 -> 1Q-2020 is followed",
    "package names limited to a/a..a/d, at most 3 files per directory",
    "a read_updates call that does not return within 1 s of CPU time is reported as non-terminating",
]
BOUNDS = {
    "quick": "8 valid lines; ordering part: all sequences of <=3 lines x all splits into <=3 non-empty files x all ordered name "
    "subsets of 4 quarter names x all listing orders; chain part: all sequences of 4 lines in 1 file and every 2-file split "
    "over (4Q-2019,1Q-2020); malformed part: 11 malformed kinds inserted at every position of every sequence of <=2 lines; "
    "empty-file part: sequences of <=2 lines over 3 files with empty files; file-ending part: sequences of <=3 lines in 1 file and "
    "every 2-file split, every file ending newline-terminated / last line unterminated / extra blank line (not all plain)",
    "thorough": "13 valid lines, 5 quarter names; ordering part <=3 lines (all splits/names/listings) plus 4 lines (8-line alphabet) over the "
    "name subsets whose lexical and chronological orders differ; chain part 5 lines (8-line alphabet) and 4 lines (13-line alphabet); malformed part over sequences of <=3 lines; "
    "file-ending part as quick over the 13-line alphabet",
}

# ----------------------------------------------------------------------------------------------------------------
# alphabet
# ----------------------------------------------------------------------------------------------------------------
VALID_Q = [
    "move a/a a/b",
    "move a/b a/c",
    "move a/c a/a",  # closes the 3-cycle
    "move a/a a/d",  # redundant after 'move a/a a/b'
    "move a/b a/a",  # closes the 2-cycle
    "slotmove a/a 0 1",
    "slotmove a/b 0 2",
    "slotmove a/c 0 3",
]
VALID_T = VALID_Q + [
    "move a/d a/b",
    "slotmove a/d 0 4",
    "move a/c a/d",
    "slotmove >=a/b-1 1 5",
    "move a/a a/a",
]
MALFORMED = [
    ("arity-move-short", "move a/a"),
    ("arity-move-long", "move a/a a/b a/c"),
    ("versioned-move-src", "move =a/a-1 a/b"),
    ("versioned-move-trg", "move a/a =a/b-1"),
    ("arity-slotmove-short", "slotmove a/a 0"),
    ("arity-slotmove-long", "slotmove a/a 0 1 2"),
    ("slotted-slotmove", "slotmove a/a:0 0 1"),
    ("unknown-command", "rename a/a a/b"),
    ("empty-line", ""),
    ("unparseable-atom", "move a a/b"),
    ("unparseable-slot", "slotmove a/a 0 @"),
]
NAMES_Q = ["1Q-2019", "4Q-2019", "1Q-2020", "3Q-2020"]  # chronological
NAMES_T = ["2Q-2018", "1Q-2019", "4Q-2019", "1Q-2020", "3Q-2020"]
MIS = ("4Q-2019", "1Q-2020")  # chronological order; lexical order is the reverse


def chrono_key(name):
    q, y = name.split("Q-")
    return (int(y), int(q))


# ----------------------------------------------------------------------------------------------------------------
# reference (plain Python, never imports pkgcore)
# ----------------------------------------------------------------------------------------------------------------
_NAME = r"[a-z]+/[a-z]+"
_RE_PLAIN = re.compile(rf"^{_NAME}$")
_RE_VERSIONED = re.compile(rf"^(?:=|>=|<=|>|<|~)({_NAME})-\d+(?:\.\d+)*(?:-r\d+)?$")
_RE_SLOT = re.compile(r"^[A-Za-z0-9_][A-Za-z0-9+_.-]*$")


def ref_parse(line):
    """-> ('move', src, trg) | ('slotmove', key, atomtext, oldslot, newslot) | None (malformed => skipped)."""
    if line != line.strip():
        raise AssertionError("whitespace lines are outside the alphabet")
    tok = line.split()
    if not tok:
        return None
    if tok[0] == "move":
        if len(tok) != 3:
            return None
        if not _RE_PLAIN.match(tok[1]) or not _RE_PLAIN.match(tok[2]):
            return None  # versioned, slotted or not an atom at all
        return ("move", tok[1], tok[2])
    if tok[0] == "slotmove":
        if len(tok) != 4:
            return None
        if _RE_PLAIN.match(tok[1]):
            key = tok[1]
        else:
            m = _RE_VERSIONED.match(tok[1])
            if not m:
                return None
            key = m.group(1)
        if not _RE_SLOT.match(tok[2]) or not _RE_SLOT.match(tok[3]):
            return None
        return ("slotmove", key, tok[1], tok[2], tok[3])
    return None


def reference(files):
    """files: {name: [lines]} -> (expected mapping name -> list of [kind, a, b], arguable: bool, number of effective lines)."""
    events = []
    for name in sorted(files, key=chrono_key):
        for line in files[name]:
            ev = ref_parse(line)
            if ev is not None:
                events.append(ev)
    moved = set()
    targets_after_move = set()  # names that became a move target after having been moved away
    effective = []
    arguable = False
    for ev in events:
        if ev[0] == "move":
            _, src, trg = ev
            if src in moved:
                continue  # redundant move of an already-moved name
            moved.add(src)
            if trg in moved:
                targets_after_move.add(trg)
            effective.append(ev)
        else:
            key = ev[1]
            if key in moved:
                if key in targets_after_move:
                    arguable = True
                continue
            effective.append(ev)
    names = set()
    for ev in effective:
        names.add(ev[1])
        if ev[0] == "move":
            names.add(ev[2])
    out = {}
    for n in sorted(names):
        cur = n
        cmds = []
        for ev in effective:
            if ev[1] != cur:
                continue
            if ev[0] == "move":
                cmds.append(["move", ev[1], ev[2]])
                cur = ev[2]
            else:
                cmds.append(["slotmove", f"{ev[2]}:{ev[3]}", ev[4]])
        if cmds:
            out[n] = cmds
    return out, arguable, len(effective)


# ----------------------------------------------------------------------------------------------------------------
# driving the real code
# ----------------------------------------------------------------------------------------------------------------
_state = {}
CALL_TIMEOUT = 1  # seconds of CPU time; a normal call takes well under a millisecond
MAX_TIMEOUTS_PER_TASK = 3  # after that many non-terminating calls a task stops calling and counts the skipped cases


class _CallTimeout(BaseException):
    pass


def _on_alarm(signum, frame):
    raise _CallTimeout()


def _setup():
    if _state:
        return _state
    import logging

    logging.getLogger("pkgcore").setLevel(logging.CRITICAL + 10)
    from pkgcore.ebuild import pkg_updates
    from pkgcore.ebuild.eapi import get_eapi

    _state["mod"] = pkg_updates
    _state["eapi"] = get_eapi("7")
    _state["real_listdir"] = pkg_updates.listdir_files
    return _state


def observe(dirpath, listing):
    """Call the real read_updates with the directory listing presented in the chosen order."""
    st = _setup()
    mod = st["mod"]
    real = st["real_listdir"]

    def shim(path, *a, **kw):
        got = list(real(path, *a, **kw))
        if sorted(got) != sorted(listing):
            raise AssertionError(f"harness: listing {got} != {listing}")
        return list(listing)

    mod.listdir_files = shim
    # the flattening of the command chains "needs to watch for cycles" (its own comment): bound the call so that a
    # non-terminating walk is an observed outcome instead of a hung check
    old = signal.signal(signal.SIGVTALRM, _on_alarm)
    signal.setitimer(signal.ITIMER_VIRTUAL, CALL_TIMEOUT)
    try:
        try:
            res = mod.read_updates(dirpath, st["eapi"])
        except _CallTimeout:
            return "raise:no-termination-within-%ds-cpu" % CALL_TIMEOUT
        except (Exception, RecursionError) as e:  # observed outcome, judged by the oracle
            return "raise:" + type(e).__name__
        finally:
            signal.setitimer(signal.ITIMER_VIRTUAL, 0)
    finally:
        signal.signal(signal.SIGVTALRM, old)
        mod.listdir_files = real
    out = {}
    for k, cmds in res.items():
        lst = []
        for c in cmds:
            if c[0] == "move":
                lst.append(["move", str(c[1]), str(c[2])])
            else:
                lst.append([c[0], str(c[1]), str(c[2])])
        out[str(k)] = lst
    return out


ENDINGS = ("nl", "none", "blank")  # last line newline-terminated / not terminated / followed by one extra blank line


def file_text(lines, ending="nl"):
    """the bytes of an update file; an unterminated last line is still a line, a trailing blank line is an (ignored) empty line"""
    text = "".join(l + "\n" for l in lines)
    if ending == "none" and lines:
        text = text[:-1]
    elif ending == "blank":
        text += "\n"
    return text


def write_dir(dirpath, files, endings=None):
    for fn in os.listdir(dirpath):
        os.unlink(os.path.join(dirpath, fn))
    for name, lines in files.items():
        with open(os.path.join(dirpath, name), "w") as f:
            f.write(file_text(lines, (endings or {}).get(name, "nl")))


def judge(files, listing, dirpath):
    """-> (msgs, info).  Shared by work() and replay()."""
    exp, arguable, neff = reference(files)
    if arguable:
        return [], {"excluded": True, "exp": exp, "obs": None, "neff": neff}
    obs = observe(dirpath, listing)
    msgs = []
    if isinstance(obs, str):
        msgs.append(f"read_updates raised {obs[6:]}; expected {exp}")
    elif obs != exp:
        keys = sorted(set(obs) | set(exp))
        diff = [k for k in keys if obs.get(k) != exp.get(k)]
        k = diff[0]
        msgs.append(f"commands for {k}: got {obs.get(k)} expected {exp.get(k)} (files {files}, differing names {diff})")
    return msgs, {"excluded": False, "exp": exp, "obs": obs, "neff": neff}


# ----------------------------------------------------------------------------------------------------------------
# enumeration
# ----------------------------------------------------------------------------------------------------------------
def splits(seq, k):
    """all ways to cut seq into k consecutive non-empty parts."""
    n = len(seq)
    for cuts in itertools.combinations(range(1, n), k - 1):
        b = (0,) + cuts + (n,)
        yield [list(seq[b[i] : b[i + 1]]) for i in range(k)]


def splits_with_empty(seq, k):
    n = len(seq)
    for cuts in itertools.combinations_with_replacement(range(0, n + 1), k - 1):
        b = (0,) + cuts + (n,)
        parts = [list(seq[b[i] : b[i + 1]]) for i in range(k)]
        if any(not p for p in parts):
            yield parts


def dirs_all_names(seq, names, maxfiles=3, only_misordered=False):
    """yield (files dict in chrono order, listing) for every split / name subset / listing order."""
    for k in range(1, min(maxfiles, len(seq)) + 1):
        for parts in splits(seq, k):
            for sub in itertools.combinations(names, k):  # names is chronological
                if only_misordered and list(sub) == sorted(sub):
                    continue
                files = dict(zip(sub, parts))
                for listing in itertools.permutations(sub):
                    yield files, list(listing)


def dirs_chain(seq):
    yield {"1Q-2019": list(seq)}, ["1Q-2019"]
    for parts in splits(seq, 2):
        files = dict(zip(MIS, parts))
        yield files, [MIS[0], MIS[1]]
        yield files, [MIS[1], MIS[0]]


def dirs_empty(seq, names):
    sub = (names[1], names[2], names[3]) if len(names) == 4 else (names[2], names[3], names[4])
    for parts in splits_with_empty(seq, 3):
        files = dict(zip(sub, parts))
        for listing in itertools.permutations(sub):
            yield files, list(listing)


def config(tier):
    if tier == "quick":
        return dict(valid=VALID_Q, names=NAMES_Q, ord_len=3, ord4=False, chain=[(VALID_Q, 4)], mal_len=2, end_len=3)
    return dict(valid=VALID_T, names=NAMES_T, ord_len=3, ord4=True, chain=[(VALID_Q, 5), (VALID_T, 4)], mal_len=3, end_len=3)


def tasks(tier):
    cfg = config(tier)
    nv = len(cfg["valid"])
    out = []
    # ordering part: partition by (length, first line)
    for n in range(1, cfg["ord_len"] + 1):
        for first in range(nv):
            if n == 3:
                for second in range(nv):
                    out.append(("ord", tier, n, (first, second)))
            else:
                out.append(("ord", tier, n, (first,)))
    if cfg["ord4"]:
        for first in range(nv):
            for second in range(nv):
                if first < len(VALID_Q) and second < len(VALID_Q):
                    out.append(("ord4", tier, 4, (first, second)))
    for ci, (alpha, n) in enumerate(cfg["chain"]):
        for first in range(len(alpha)):
            for second in range(len(alpha)):
                out.append(("chain", tier, ci, (first, second)))
    for mi in range(len(MALFORMED)):
        for n in range(0, cfg["mal_len"] + 1):
            out.append(("mal", tier, mi, n))
    for first in range(nv):
        out.append(("empty", tier, 2, (first,)))
    for n in range(1, cfg["end_len"] + 1):
        for first in range(nv):
            out.append(("ending", tier, n, (first,)))
    return out


def gen(task):
    """yield (files, listing, malkind, endings)"""
    kind, tier, x, y = task
    cfg = config(tier)
    valid, names = cfg["valid"], cfg["names"]
    if kind in ("ord", "ord4"):
        n, prefix = x, y
        if kind == "ord4":
            valid = VALID_Q
        for rest in itertools.product(range(len(valid)), repeat=n - len(prefix)):
            seq = [valid[i] for i in prefix + rest]
            for files, listing in dirs_all_names(seq, names, only_misordered=(kind == "ord4")):
                yield files, listing, None, None
    elif kind == "chain":
        alpha, n = cfg["chain"][x]
        for rest in itertools.product(range(len(alpha)), repeat=n - 2):
            seq = [alpha[i] for i in y + rest]
            for files, listing in dirs_chain(seq):
                yield files, listing, None, None
    elif kind == "mal":
        mk, mline = MALFORMED[x]
        n = y
        for idx in itertools.product(range(len(valid)), repeat=n):
            base = [valid[i] for i in idx]
            for pos in range(n + 1):
                seq = base[:pos] + [mline] + base[pos:]
                for files, listing in dirs_chain(seq):
                    yield files, listing, mk, None
    elif kind == "empty":
        for n in (1, 2):
            for rest in itertools.product(range(len(valid)), repeat=n - 1):
                seq = [valid[i] for i in y + rest]
                for files, listing in dirs_empty(seq, names):
                    yield files, listing, None, None
    elif kind == "ending":
        # file-ending dimension: every file's last line unterminated / followed by a blank line (at least one file not plain)
        n = x
        for rest in itertools.product(range(len(valid)), repeat=n - len(y)):
            seq = [valid[i] for i in y + rest]
            for files, listing in dirs_chain(seq):
                for combo in itertools.product(ENDINGS, repeat=len(files)):
                    if all(c == "nl" for c in combo):
                        continue
                    yield files, listing, None, {nm: c for nm, c in zip(files, combo) if c != "nl"}


def classify(files, listing, malkind, info, bad, endings=None):
    if info["excluded"]:
        return "excluded-slotmove-on-reused-name"
    names = list(files)
    mis = sorted(names) != sorted(names, key=chrono_key)
    tag = "BAD" if bad else "ok"
    if endings:
        kinds = "+".join(sorted(set(endings.values())))
        last_valid = any(files[nm] and ref_parse(files[nm][-1]) is not None for nm, e in endings.items() if e == "none")
        return f"ending:{kinds}:files{len(names)}:{'last-line-is-command' if last_valid else 'plain'}:{tag}"
    if malkind:
        return f"malformed:{malkind}:{tag}"
    exp = info["exp"]
    moves = max((sum(1 for c in v if c[0] == "move") for v in exp.values()), default=0)
    total_valid = sum(1 for ls in files.values() for l in ls if ref_parse(l) is not None)
    dropped = "redundant-dropped" if info["neff"] < total_valid else "all-effective"
    return f"files{len(names)}{'-misordered' if mis else ''}:chain{min(moves, 3)}:{dropped}:{tag}"


def work(task):
    _setup()
    root = tempfile.mkdtemp(dir="/dev/shm", prefix=f"verif-{PROPERTY}-{os.getpid()}-")
    dirpath = os.path.join(root, "updates")
    os.mkdir(dirpath)
    evals = 0
    classes = {}
    viol = []
    samples = []
    last_files = last_endings = None
    timeouts = skipped = 0
    try:
        for files, listing, malkind, endings in gen(task):
            if timeouts >= MAX_TIMEOUTS_PER_TASK:
                skipped += 1
                continue
            if files is not last_files and files != last_files or endings != last_endings:
                write_dir(dirpath, files, endings)
                last_files, last_endings = files, endings
            evals += 1
            msgs, info = judge(files, listing, dirpath)
            if msgs and endings:
                msgs = [msgs[0] + f" [file endings: {endings}; none = last line without a terminating newline, blank = extra empty line]"]
            k = classify(files, listing, malkind, info, bool(msgs), endings)
            classes[k] = classes.get(k, 0) + 1
            if msgs:
                obs = info["obs"]
                if isinstance(obs, str) and "no-termination" in obs:
                    timeouts += 1
                case = {
                    "files": files,
                    "listing": listing,
                    "obs": obs if isinstance(obs, str) else "mapping",
                    "msg": msgs[0],
                }
                if endings:
                    case["endings"] = endings
                viol.append(case)
            elif len(samples) < 1 and len(files) > 1 and not info["excluded"]:
                samples.append({"files": files, "listing": listing, "result": info["obs"]})
    finally:
        shutil.rmtree(root, ignore_errors=True)
    counters = {"cases_skipped_after_timeouts": skipped} if skipped else {}
    return {"evals": evals, "classes": classes, "viol": viol, "samples": samples, "counters": counters}


def replay(case):
    _setup()
    root = tempfile.mkdtemp(dir="/dev/shm", prefix=f"verif-{PROPERTY}-{os.getpid()}-")
    try:
        dirpath = os.path.join(root, "updates")
        os.mkdir(dirpath)
        endings = case.get("endings")
        write_dir(dirpath, case["files"], endings)
        msgs, _info = judge(case["files"], case["listing"], dirpath)
        if msgs and endings:
            msgs = [msgs[0] + f" [file endings: {endings}; none = last line without a terminating newline, blank = extra empty line]"]
        return msgs
    finally:
        shutil.rmtree(root, ignore_errors=True)


# ----------------------------------------------------------------------------------------------------------------
# narrow classifiers for known_findings.json
# ----------------------------------------------------------------------------------------------------------------
def _has_unparseable_atom(case):
    """a line with a known command and the right arity whose atom / slot token is not an atom at all
    (as opposed to a versioned or slotted one), and the observed outcome is the MalformedAtom exception."""
    if case.get("obs") != "raise:MalformedAtom":
        return False
    for lines in case["files"].values():
        for l in lines:
            tok = l.split()
            if not tok:
                continue
            if tok[0] == "move" and len(tok) == 3:
                for t in tok[1:]:
                    if not re.match(rf"^(?:=|>=|<=|>|<|~)?{_NAME}(?:-\d+(?:\.\d+)*(?:-r\d+)?)?(?::[A-Za-z0-9_][A-Za-z0-9+_.-]*)?$", t):
                        return True
            if tok[0] == "slotmove" and len(tok) == 4:
                if not re.match(rf"^(?:=|>=|<=|>|<|~)?{_NAME}(?:-\d+(?:\.\d+)*(?:-r\d+)?)?(?::[A-Za-z0-9_][A-Za-z0-9+_.-]*)?$", tok[1]):
                    return True
                if not _RE_SLOT.match(tok[2]) or not _RE_SLOT.match(tok[3]):
                    return True
    return False


def _lexical_file_order(case):
    """the directory's files sort differently by name than by (year, quarter), and the observed mapping equals what
    the reference yields when the files are processed in lexical order."""
    files = case["files"]
    names = list(files)
    if sorted(names) == sorted(names, key=chrono_key) or case.get("obs") != "mapping":
        return False
    # re-run the reference with the files renamed so that chronological order == lexical order of the originals
    lex = sorted(names)
    fake = {f"{i + 1}Q-2000": files[n] for i, n in enumerate(lex)}
    exp_lex, _arguable, _n = reference(fake)  # the 'already moved' rule decides, as in pkgcore, even on reused names
    root = tempfile.mkdtemp(dir="/dev/shm", prefix=f"verif-{PROPERTY}-{os.getpid()}-")
    try:
        dirpath = os.path.join(root, "updates")
        os.mkdir(dirpath)
        write_dir(dirpath, files, case.get("endings"))
        obs = observe(dirpath, case["listing"])
    finally:
        shutil.rmtree(root, ignore_errors=True)
    return obs == exp_lex


CLASSIFIERS = {
    "unparseable-atom-raises": _has_unparseable_atom,
    "update-files-sorted-lexically": _lexical_file_order,
}
