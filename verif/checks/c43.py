"""C43 config section inheritance resolves to the nearest definition (breadth-first), later sources override
earlier ones for the same name, cycles and missing targets are ConfigurationErrors.

Seam: ``pkgcore.config.central.ConfigManager(sources).collapse_named_section(root)`` over in-memory dict sources
built from ``basics.HardCodedConfigSection``.  Every (configuration, root) of a bounded family is collapsed by the
real code and compared with a graph reference written in plain Python.
"""

import itertools
import signal

PROPERTY = "C43"
LEVEL = "exploration"
ENGINE = "enum"
TECHNIQUE = "bounded exhaustive enumeration of inheritance graphs over config sources against a breadth-first reference"
RULE = (
    "every assignment of inherit lists (ordered, distinct targets, bounded length, targets = other sections, the "
    "section itself, an undefined name) to every definition of up to 4 section names spread over 1-3 config sources, "
    "crossed with a covering family of key patterns (which definitions set class / k1 / k2; every definition's value "
    "is unique so the supplying definition is identified), collapsed from every root; the result (class, k1, k2 or "
    "ConfigurationError) is compared with a reference that explores the (name, source-level) graph: missing edge or "
    "directed cycle reachable => error; a node reachable along two paths (diamond) => excluded; otherwise a tree whose "
    "breadth-first order decides each key. For every configuration with 2-3 sources the same expectation is also demanded of "
    "managers with a history: built with a proper prefix of the sources, sections collapsed (only the root / every section), "
    "the remaining sources added through add_config_source(), root collapsed again. A class is (part, graph verdict, reachable definitions, depth, whether "
    "BFS and DFS would disagree, whether a self-inherit / overridden definition is involved, outcome)."
)
ASSUMPTIONS = [
    "Excl: diamonds (a definition reachable along two inheritance paths) - pkgcore reports them as recursive by design, the statement only speaks of cycles; counted in class 'excluded-diamond' and not judged",
    "Excl: inherit lists naming the same target twice; list-typed keys with prepend/append; inherit-only and default flags; autoload sections",
    "Excl: configurations in which no reachable definition sets 'class' (nothing to collapse; pkgcore raises 'no class specified') - counted in 'unjudged-no-class'",
    "a self-inherit refers to the definition of the same name in the next earlier source; with no earlier definition it is a missing target (error)",
    "a source added with add_config_source() counts as a later config source: the collapsed result must be the one of a manager given all sources up front, whatever was collapsed before",
    "errors must be pkgcore.config.errors.ConfigurationError; non-termination within 1 s of CPU time is reported as a violation",
    "at most 4 names (5 in the tree part), 3 sources, inherit lists of length <= 2 (<= 4 in the tree part); string-typed keys only",
]
BOUNDS = {
    "quick": "single source: 4 names x inherit lists (len<=2) over the 3 other names = 10^4 graphs x 8 key-pattern triples x 4 roots; "
    "ordered trees: every tree on 5 names rooted at s0 with every child order x all 32 key patterns x 5 roots; missing targets: 3 names x lists (len<=2) over {2 others, undefined} x 4 pattern triples; two sources: 3 names, each defined in "
    "early/late/both, lists (len<=1) over {2 others, self} x 8 pattern triples, all roots; two sources, 2 names, lists (len<=2) over {other, self} on every definition; three sources: 2 names, any non-empty "
    "subset of sources, lists (len<=1) over {other, self} x 8 pattern triples",
    "thorough": "ordered trees as quick; single source: 4 names x lists (len<=2) over {3 others, undefined} = 17^4 graphs x 8 pattern triples x 4 roots; "
    "two sources: 3 names, late definitions with lists len<=2, early definitions len<=1 over {2 others, self}; three sources as quick "
    "with lists len<=2",
}

KEYS = ("class", "k1", "k2")
MISSING = "sx"
CPU_TIMEOUT = 1.0  # seconds of CPU time per collapse; a normal collapse takes ~0.1 ms


# ----------------------------------------------------------------------------------------------------------------
# configuration encoding
#   sources: list (earliest first) of {name: {"inherit": [names], "keys": [subset of KEYS]}}
#   values are derived: definition (name, srcindex) supplies class CLS[name, srcindex] and "k1:name@srcindex"
# ----------------------------------------------------------------------------------------------------------------
def _mkcls(tag):
    def f(k1="", k2=""):
        return (tag, k1, k2)

    f.__name__ = "cls_" + tag.replace("@", "_")
    return f


CLS = {}
for _n in ("s0", "s1", "s2", "s3", "s4"):
    for _i in range(3):
        CLS[f"{_n}@{_i}"] = _mkcls(f"{_n}@{_i}")
CLS_TAG = {id(f): t for t, f in CLS.items()}


# ----------------------------------------------------------------------------------------------------------------
# reference (plain Python)
# ----------------------------------------------------------------------------------------------------------------
def reference(sources, root):
    """-> ("error", why) | ("excluded", why) | ("ok", {key: tag-of-supplying-definition}, info)"""
    # stack[name] = list of source indices defining it, latest first
    stack = {}
    for i, src in enumerate(sources):
        for name in src:
            stack.setdefault(name, []).insert(0, i)
    if root not in stack:
        return ("error", "missing-root")

    def edges(node):
        name, lvl = node
        d = sources[stack[name][lvl]][name]
        out = []
        for t in d["inherit"]:
            if t == name:
                out.append((name, lvl + 1) if lvl + 1 < len(stack[name]) else None)
            else:
                out.append((t, 0) if t in stack else None)
        return out

    # full exploration of the reachable graph
    start = (root, 0)
    indeg = {start: 0}
    order = []
    missing = False
    todo = [start]
    seen = {start}
    while todo:
        n = todo.pop()
        order.append(n)
        for m in edges(n):
            if m is None:
                missing = True
                continue
            indeg[m] = indeg.get(m, 0) + 1
            if m not in seen:
                seen.add(m)
                todo.append(m)
    # cycle detection: iterative colouring DFS
    cyc = False
    colour = {}

    def visit(n):
        nonlocal cyc
        colour[n] = 1
        for m in edges(n):
            if m is None:
                continue
            c = colour.get(m, 0)
            if c == 1:
                cyc = True
            elif c == 0:
                visit(m)
        colour[n] = 2

    visit(start)
    if missing or cyc:
        return ("error", ("missing" if missing else "") + ("+" if missing and cyc else "") + ("cycle" if cyc else ""))
    if any(v > 1 for v in indeg.values()):
        return ("excluded", "diamond")
    # a tree: breadth-first order
    bfs = [start]
    i = 0
    while i < len(bfs):
        bfs.extend(m for m in edges(bfs[i]))
        i += 1
    # depth-first preorder, only to classify whether the two orders could disagree
    dfs = []

    def pre(n):
        dfs.append(n)
        for m in edges(n):
            pre(m)

    pre(start)

    def supplier(order_, key):
        for name, lvl in order_:
            si = stack[name][lvl]
            if key in sources[si][name]["keys"]:
                return f"{name}@{si}"
        return None

    res = {k: supplier(bfs, k) for k in KEYS}
    res_dfs = {k: supplier(dfs, k) for k in KEYS}
    depth = {start: 0}
    for n in bfs:
        for m in edges(n):
            depth[m] = depth[n] + 1
    info = {
        "n": len(bfs),
        "depth": max(depth.values()),
        "bfs_ne_dfs": res != res_dfs,
        "self": any(lvl > 0 for _n, lvl in bfs),
        "shadowed": any(len(stack[name]) > 1 for name, _l in bfs),
    }
    return ("ok", res, info)


# ----------------------------------------------------------------------------------------------------------------
# driving the real code
# ----------------------------------------------------------------------------------------------------------------
class _CallTimeout(BaseException):
    pass


def _on_alarm(signum, frame):
    raise _CallTimeout()


_ready = []


def _setup():
    if not _ready:
        import logging

        logging.getLogger("pkgcore").setLevel(logging.CRITICAL + 10)
        _ready.append(1)


def observe(sources, root, history=None):
    """-> ("error", exc type name) | ("ok", {key: tag or None}) | ("other", text)
    history None: the manager is built with all sources up front.  history [mode, k]: the manager is built with the
    first k sources; then, for each remaining source in order, sections are collapsed first (mode "all": every section
    name known so far, mode "root": only the root; ConfigurationErrors of these warm-up collapses are ignored) and the
    source is added with add_config_source(); finally the root is collapsed."""
    _setup()
    from pkgcore.config import basics, central, errors

    real_sources = []
    for i, src in enumerate(sources):
        d = {}
        for name, spec in src.items():
            sec = {}
            if spec["inherit"]:
                sec["inherit"] = list(spec["inherit"])
            tag = f"{name}@{i}"
            if "class" in spec["keys"]:
                sec["class"] = CLS[tag]
            if "k1" in spec["keys"]:
                sec["k1"] = "k1:" + tag
            if "k2" in spec["keys"]:
                sec["k2"] = "k2:" + tag
            d[name] = basics.HardCodedConfigSection(sec)
        real_sources.append(d)
    old = signal.signal(signal.SIGVTALRM, _on_alarm)
    signal.setitimer(signal.ITIMER_VIRTUAL, CPU_TIMEOUT)
    try:
        try:
            if history is None:
                manager = central.ConfigManager(real_sources)
            else:
                mode, k = history
                manager = central.ConfigManager(real_sources[:k])
                for later in real_sources[k:]:
                    warm = sorted(manager.sections()) if mode == "all" else [root]
                    for nm in warm:
                        try:
                            manager.collapse_named_section(nm)
                        except errors.ConfigurationError:
                            pass
                    manager.add_config_source(later)
            collapsed = manager.collapse_named_section(root)
        except _CallTimeout:
            return ("other", "no termination within %.0f s CPU" % CPU_TIMEOUT)
        except errors.ConfigurationError as e:
            chain = []
            while e is not None:
                chain.append(str(e))
                e = e.__cause__
            return ("error", " / ".join(chain)[:200])
        except Exception as e:
            return ("other", f"{type(e).__name__}: {e}"[:200])
        finally:
            signal.setitimer(signal.ITIMER_VIRTUAL, 0)
    finally:
        signal.signal(signal.SIGVTALRM, old)
    res = {"class": CLS_TAG.get(id(collapsed.type.callable), repr(collapsed.type.callable))}
    for k in ("k1", "k2"):
        v = collapsed.config.get(k)
        if v is None:
            res[k] = None
        elif isinstance(v, str) and v.startswith(k + ":"):
            res[k] = v[len(k) + 1 :]
        else:
            res[k] = "?" + repr(v)
    extra = set(collapsed.config) - {"k1", "k2"}
    if extra:
        res["extra"] = sorted(extra)
    return ("ok", res)


def judge(sources, root, history=None):
    """-> (msgs, ref, obs); shared by work() and replay().  The expectation does not depend on the history: sources
    added later override earlier ones exactly as if they had been given up front."""
    ref = reference(sources, root)
    if ref[0] == "excluded":
        return [], ref, None
    obs = observe(sources, root, history)
    msgs = _compare(root, ref, obs)
    if msgs and history is not None:
        msgs = [f"after building the manager with the first {history[1]} source(s), collapsing {'every section' if history[0] == 'all' else repr(root)} and add_config_source() of the rest: " + m for m in msgs]
    if not msgs and ref[0] == "ok" and ref[1]["class"] is None:
        return [], ("unjudged-no-class",), obs
    return msgs, ref, obs


def _compare(root, ref, obs):
    msgs = []
    if obs[0] == "other":
        msgs.append(f"collapse of {root!r}: {obs[1]}; reference says {ref[:2]}")
    elif ref[0] == "error":
        if obs[0] != "error":
            msgs.append(f"collapse of {root!r} succeeded with {obs[1]} but the inheritance graph has a {ref[1]}: ConfigurationError expected")
    else:
        exp = ref[1]
        if exp["class"] is None:
            return []
        if obs[0] == "error":
            msgs.append(f"collapse of {root!r} raised ConfigurationError ({obs[1]}) but the inheritance graph is a tree; expected {exp}")
        elif obs[1] != exp:
            bad = [k for k in list(KEYS) + ["extra"] if obs[1].get(k) != exp.get(k)]
            msgs.append(f"collapse of {root!r}: key(s) {bad} supplied by {[obs[1].get(k) for k in bad]}, breadth-first nearest definition is {[exp.get(k) for k in bad]}")
    return msgs


# ----------------------------------------------------------------------------------------------------------------
# enumeration
# ----------------------------------------------------------------------------------------------------------------
def lists(targets, maxlen):
    out = [()]
    for n in range(1, maxlen + 1):
        out.extend(itertools.permutations(targets, n))
    return out


# pattern triples over definition slots: bit j of a pattern = definition slot j sets the key
def pattern_triples(nslots, count):
    """a covering family: the k1/k2 patterns run through all 2^nslots patterns when count*2 >= 2^nslots; the class
    pattern is chosen so that class is supplied by the root, by far definitions, by all, ..."""
    full = (1 << nslots) - 1
    allp = list(range(1 << nslots))
    cls_cycle = [full, full & ~1, 1 << (nslots - 1), (full & ~1) & ~2 or full, 1, 2 if nslots > 1 else 1, full & 0b0110 or full, full & 0b1010 or full]
    out = []
    for e in range(count):
        k1 = allp[(2 * e) % len(allp)]
        k2 = allp[(2 * e + 1) % len(allp)]
        c = cls_cycle[e % len(cls_cycle)] or full
        out.append((c, k1, k2))
    return out


def strided_patterns(nslots, count):
    """for many slots (two/three sources): a fixed spread of patterns incl. none/all/single far slots."""
    full = (1 << nslots) - 1
    picks = [0, full]
    picks += [1 << j for j in range(nslots)]
    picks += [full & ~(1 << j) for j in range(nslots)]
    step = max(1, (1 << nslots) // 16)
    picks += list(range(3, 1 << nslots, step))
    seen = []
    for p in picks:
        if p not in seen:
            seen.append(p)
    cls_cycle = [full, full & ~1 or full, 1 << (nslots - 1), 1]
    out = []
    for e in range(count):
        k1 = seen[(2 * e) % len(seen)]
        k2 = seen[(2 * e + 1) % len(seen)]
        out.append((cls_cycle[e % len(cls_cycle)], k1, k2))
    return out


def build(slots, inherits, triple):
    """slots: list of (name, srcindex); inherits: list of tuples; triple: (class, k1, k2) bit patterns -> sources list"""
    nsrc = max(s for _n, s in slots) + 1
    sources = [dict() for _ in range(nsrc)]
    for j, ((name, si), inh) in enumerate(zip(slots, inherits)):
        keys = [k for k, p in zip(KEYS, triple) if p >> j & 1]
        sources[si][name] = {"inherit": list(inh), "keys": keys}
    return sources


NAMES = ("s0", "s1", "s2", "s3")


def tasks(tier):
    out = []
    if tier == "quick":
        # single source, 4 names, lists over the 3 other names (10 each): partition by the lists of s0 and s1
        for a in range(10):
            for b in range(10):
                out.append(("single", tier, 4, False, a, b))
        # missing targets: 3 names, lists over {2 others, undefined} (10 each): partition by s0's list
        for a in range(10):
            out.append(("single", tier, 3, True, a, None))
    else:
        for a in range(17):
            for b in range(17):
                out.append(("single", tier, 4, True, a, b))
    # ordered trees on 5 names rooted at s0 (every parent vector, every child order), all 32 patterns: partition by parents of s1,s2
    for a in range(5):
        for b in range(5):
            if a != 1 and b != 2:
                out.append(("tree5", tier, a, b))
    # two sources, 3 names: partition by the presence pattern (3^3) and s0's choice index
    for pres in itertools.product(("late", "early", "both"), repeat=3):
        out.append(("two", tier, pres))
    # two sources, 2 names, lists of length <= 2 over {other, self} on every definition
    for pres in itertools.product(("late", "early", "both"), repeat=2):
        out.append(("two2", tier, pres))
    # three sources, 2 names: partition by presence subsets
    subsets = [s for n in (1, 2, 3) for s in itertools.combinations(range(3), n)]
    for p0 in subsets:
        for p1 in subsets:
            out.append(("three", tier, (p0, p1)))
    return out


def gen(task):
    """yield (sources, tag-of-part)"""
    kind, tier = task[0], task[1]
    if kind == "single":
        _k, _t, n, with_missing, a, b = task
        names = NAMES[:n]
        opts = []
        for nm in names:
            targets = [x for x in names if x != nm] + ([MISSING] if with_missing else [])
            opts.append(lists(targets, 2))
        slots = [(nm, 0) for nm in names]
        ntr = 8 if n == 4 else 4
        triples = pattern_triples(n, ntr)
        first = [opts[0][a]]
        second = [opts[1][b]] if b is not None else opts[1]
        for inh in itertools.product(first, second, *opts[2:]):
            for tr in triples:
                yield build(slots, inh, tr), "single"
    elif kind == "tree5":
        _k, _t, pa, pb = task
        names5 = NAMES + ("s4",)
        slots = [(nm, 0) for nm in names5]
        for pc in range(5):
            for pd in range(5):
                parent = {1: pa, 2: pb, 3: pc, 4: pd}
                if any(parent[i] == i for i in parent):
                    continue
                # must be a tree rooted at 0: every node reaches 0
                ok = True
                for i in parent:
                    j, steps = i, 0
                    while j != 0 and steps < 6:
                        j = parent[j]
                        steps += 1
                    if j != 0:
                        ok = False
                if not ok:
                    continue
                kids = {i: [c for c in parent if parent[c] == i] for i in range(5)}
                for orders in itertools.product(*[list(itertools.permutations(kids[i])) for i in range(5)]):
                    inh = [tuple(names5[c] for c in orders[i]) for i in range(5)]
                    for pt in range(32):
                        yield build(slots, inh, (pt or 31, pt, 31 ^ pt)), "tree5"
    elif kind == "two":
        pres = task[2]
        names = NAMES[:3]
        slots = []
        opts = []
        late_len = 1 if tier == "quick" else 2
        for nm, p in zip(names, pres):
            targets = [x for x in names if x != nm] + [nm]
            if p in ("early", "both"):
                slots.append((nm, 0))
                opts.append(lists(targets, 1))
            if p in ("late", "both"):
                slots.append((nm, 1))
                opts.append(lists(targets, late_len))
        triples = strided_patterns(len(slots), 8)
        for inh in itertools.product(*opts):
            for tr in triples:
                yield build(slots, inh, tr), "two"
    elif kind == "two2":
        pres = task[2]
        names = NAMES[:2]
        slots = []
        opts = []
        for nm, p in zip(names, pres):
            targets = [x for x in names if x != nm] + [nm]
            if p in ("early", "both"):
                slots.append((nm, 0))
                opts.append(lists(targets, 2))
            if p in ("late", "both"):
                slots.append((nm, 1))
                opts.append(lists(targets, 2))
        triples = strided_patterns(len(slots), 8)
        for inh in itertools.product(*opts):
            for tr in triples:
                yield build(slots, inh, tr), "two2"
    elif kind == "three":
        p0, p1 = task[2]
        names = NAMES[:2]
        slots = []
        opts = []
        ln = 1 if tier == "quick" else 2
        for nm, p in zip(names, (p0, p1)):
            targets = [x for x in names if x != nm] + [nm]
            for si in p:
                slots.append((nm, si))
                opts.append(lists(targets, ln))
        # make sure there are 3 sources even if the top one is empty for these names
        triples = strided_patterns(len(slots), 8)
        for inh in itertools.product(*opts):
            for tr in triples:
                src = build(slots, inh, tr)
                while len(src) < 3:
                    src.append({})
                yield src, "three"


def classify(part, ref, obs, bad):
    tag = "BAD" if bad else "ok"
    if ref[0] == "excluded":
        return f"{part}:excluded-diamond"
    if ref[0] == "unjudged-no-class":
        return f"{part}:unjudged-no-class"
    if ref[0] == "error":
        return f"{part}:error-{ref[1]}:{tag}"
    info = ref[2]
    feats = []
    if info["bfs_ne_dfs"]:
        feats.append("bfs!=dfs")
    if info["self"]:
        feats.append("self")
    elif info["shadowed"]:
        feats.append("shadowed")
    return f"{part}:tree-n{min(info['n'], 4)}-d{min(info['depth'], 3)}{'-' if feats else ''}{'-'.join(feats)}:{tag}"


MAX_TIMEOUTS_PER_TASK = 3


def work(task):
    evals = 0
    classes = {}
    viol = []
    samples = []
    timeouts = 0
    skipped = 0
    for sources, part in gen(task):
        names = sorted({n for s in sources for n in s})
        for root in names:
            if timeouts >= MAX_TIMEOUTS_PER_TASK:
                skipped += 1
                continue
            evals += 1
            msgs, ref, obs = judge(sources, root)
            k = classify(part, ref, obs, bool(msgs))
            classes[k] = classes.get(k, 0) + 1
            if msgs:
                if obs and obs[0] == "other" and "no termination" in obs[1]:
                    timeouts += 1
                viol.append({"sources": sources, "root": root, "msg": msgs[0]})
            elif not samples and ref[0] == "ok" and ref[2]["n"] >= 3:
                samples.append({"sources": sources, "root": root, "result": obs[1]})
            if len(sources) < 2 or ref[0] in ("excluded", "unjudged-no-class"):
                continue
            for history in histories(len(sources)):
                if timeouts >= MAX_TIMEOUTS_PER_TASK:
                    skipped += 1
                    continue
                evals += 1
                hmsgs, href, hobs = judge(sources, root, history)
                k = f"history-{history[0]}:{href[0] if href[0] != 'error' else 'error-' + href[1]}:{'BAD' if hmsgs else 'ok'}"
                classes[k] = classes.get(k, 0) + 1
                if hmsgs:
                    if hobs and hobs[0] == "other" and "no termination" in hobs[1]:
                        timeouts += 1
                    viol.append({"sources": sources, "root": root, "history": list(history), "msg": hmsgs[0]})
    counters = {}
    if skipped:
        counters["cases_skipped_after_timeouts"] = skipped
    return {"evals": evals, "classes": classes, "viol": viol, "samples": samples, "counters": counters}


def histories(nsrc):
    """every way to start with a proper prefix of the sources and add the rest, warming up all sections or only the root"""
    return [(mode, k) for k in range(1, nsrc) for mode in ("root", "all")]


def replay(case):
    h = case.get("history")
    msgs, _ref, _obs = judge(case["sources"], case["root"], tuple(h) if h else None)
    return msgs


CLASSIFIERS = {}
