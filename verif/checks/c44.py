"""C44 query strings select exactly the packages they describe.

Every query string of a bounded grammar is parsed by the real ``parserestrict.parse_match`` and
the resulting restriction is applied to every package of a universe; the selection is compared
with a field-by-field reference (``fnmatchcase`` as a whole-string pattern on category, package,
slot and sub-slot; PMS version comparison for the operator; equality for the repository).
Plain atom strings are compared with ``atom(text).match``; blocker strings must be rejected.
"""

import itertools
from fnmatch import fnmatchcase

from verif import ref

PROPERTY = "C44"
LEVEL = "exploration"
ENGINE = "enum"
TECHNIQUE = (
    "bounded exhaustive enumeration of query strings x package universe on the real parse_match vs an "
    "fnmatch/PMS field-by-field reference (small-scope model checking)"
)
RULE = (
    "query strings are generated from the grammar [op][cat/]pkg[-ver][:slot[/subslot]][::repo] with every position "
    "drawn from a token set containing exact names, '*', prefix, suffix, infix and double globs, every version "
    "operator, and '!'/'!!' blocker prefixes; each string is parsed and applied to every package of the universe "
    "(4 categories x 4 packages x 3 versions x 3 slots x 2 sub-slots x 2 repositories); a second universe has names and "
    "tokens with '.' and '+' in every glob position next to near-miss names only a regex reading would select; a third has single-'*' globs whose literal prefix and "
    "suffix overlap in too-short values. A class is (type of the "
    "restriction returned, operator present, glob in slot/sub-slot, selects none/some/all); distinct_nontrivial "
    "counts classes observed."
)
ASSUMPTIONS = [
    "plain atom strings (category and package without '*', no '*' in slot/sub-slot other than the ':*' slot operator) are judged by atom(text).match, as the statement says; everything else by the field-by-field reference",
    "Excl: a version operator on a string without a category whose package part has a glob (e.g. '>=a*-1'); parse_match documents the category-less form only as a variation of atom syntax",
    "Excl: revisions in the version of a globbed query (e.g. '=a*/a-1-r1'), '=...*' version globs, consecutive '**', empty category/package/slot tokens, globs in the repository position, whitespace",
    "Excl: '!' anywhere other than as a leading '!' / '!!' blocker prefix",
    "only names/versions/slots of the stated token sets are covered",
]
BOUNDS = {
    "quick": "9 category forms (incl. none) x 8 package tokens x 8 version forms x 65 slot/sub-slot forms x 3 repository forms (minus exclusions) x 576 packages; '!'/'!!' prefixes on the slot-less strings; plus the dot/plus universe: 11 category x 9 package tokens x 2 version forms x 33 slot/sub-slot forms x 2 repository forms x 384 packages; plus the overlap universe (single-'*' globs a*a ab*ba ab*a a*ba 1.*.1 1*1 1.*1 1*.1 in every glob position vs values a aa aba abba ab / 1 1.1 1.0.1 11): 6 category x 5 package tokens x 2 version forms x 13 slot/sub-slot forms x 2 repository forms x 400 packages",
    "thorough": "15 category forms x 14 package tokens x 11 version forms x 101 slot/sub-slot forms x 3 repository forms (minus exclusions) x 576 packages; '!'/'!!' prefixes on every string; plus the same dot/plus and overlap universes as quick",
}

TOKENS_Q = ("a", "ab", "b", "*", "a*", "*b", "a*b", "*a*")
TOKENS = {"quick": TOKENS_Q, "thorough": TOKENS_Q + ("ba", "b*", "*a", "b*a", "a*a", "*b*")}
CATS = ("a", "ab", "b", "ba")
PKGS = ("a", "ab", "b", "ba")
VERS = ("1", "1-r1", "2")
SLOTS = ("0", "1", "10")
SUBS = ("x", "xy")
REPOS = ("r1", "r2")

_VF = (None, ("=", "1"), (">=", "2"), ("~", "1"), ("<", "2"), (">", "1"), ("<=", "1"), ("=", "1-r1"))
VER_FORMS = {"quick": _VF, "thorough": _VF + (("~", "2"), ("<=", "1-r1"), (">", "1-r1"))}
_ST = ("0", "1", "10", "*", "1*", "*0", "1*0", "*1")
_SS = (None, "x", "xy", "*", "x*", "*y", "x*y", "*x")
SLOT_TOK = {"quick": _ST, "thorough": _ST + ("0*", "*1*")}
SUB_TOK = {"quick": _SS, "thorough": _SS + ("y*", "*x*")}
# quick: 8 slots x 8 subs + none = 65; thorough: 10 x 10 + none = 101


def slot_forms(tier):
    return [(None, None)] + [(s, ss) for s in SLOT_TOK[tier] for ss in SUB_TOK[tier]]


def assemble(p):
    s = p.get("bang", "")
    if p["op"]:
        s += p["op"]
    if p["cat"] is not None:
        s += p["cat"] + "/"
    s += p["pkg"]
    if p["ver"]:
        s += "-" + p["ver"]
    if p["slot"] is not None:
        s += ":" + p["slot"]
        if p["sub"] is not None:
            s += "/" + p["sub"]
    if p["repo"]:
        s += "::" + p["repo"]
    return s


def excluded(p):
    """Strings the statement does not clearly speak about (see ASSUMPTIONS)."""
    if p["op"] and p["cat"] is None and "*" in p["pkg"]:
        return True
    globbed = "*" in (p["cat"] or "") or "*" in p["pkg"] or slot_globbed(p)
    if p["ver"] and "-r" in p["ver"] and globbed:
        return True
    return False


def slot_globbed(p):
    """A glob in the slot / sub-slot position, other than the bare ':*' which is also valid atom syntax."""
    s, ss = p["slot"], p["sub"]
    if s is None:
        return False
    if s == "*" and ss is None:
        return False
    return "*" in s or "*" in (ss or "")


def is_plain_atom(p):
    return p["cat"] is not None and "*" not in p["cat"] and "*" not in p["pkg"] and not slot_globbed(p)


# ----------------------------------------------------------------------------------------------
# reference model


def ref_select(p, f):
    """f = (cat, pkg, fullver, slot, sub, repo). Field-by-field reference selection."""
    cat, pkg, fullver, slot, sub, repo = f
    if p["cat"] is not None and not fnmatchcase(cat, p["cat"]):
        return False
    if not fnmatchcase(pkg, p["pkg"]):
        return False
    if p["op"]:
        op, v = p["op"], p["ver"]
        if op == "~":
            if ref.pms_ver_cmp(fullver, v, ignore_rev=True) != 0:
                return False
        else:
            c = ref.pms_ver_cmp(fullver, v)
            ok = {"<": c < 0, "<=": c <= 0, "=": c == 0, ">=": c >= 0, ">": c > 0}[op]
            if not ok:
                return False
    if p["slot"] is not None and not fnmatchcase(slot, p["slot"]):
        return False
    if p["sub"] is not None and not fnmatchcase(sub, p["sub"]):
        return False
    if p["repo"] and repo != p["repo"]:
        return False
    return True


# ----------------------------------------------------------------------------------------------
# universe of real package objects

# second universe: names with '.' and '+' (legal in category, slot and sub-slot names; '+' also in package names)
# next to near-miss names that only a regular-expression reading of the token would select
DP = {
    "cats": ("a.b", "axb", "a+b", "ab"),
    "pkgs": ("a+b", "ab", "axb"),
    "vers": ("1", "2"),
    "slots": ("1.0", "1x0", "10", "1+0"),
    "subs": ("x.y", "xzy", "xy", "x+y"),
    "repos": ("r1",),
    "cat_tok": (None, "a.b", "a+b", "a.*", "a.b*", "*.b", "a+*", "a+b*", "*+b", "a*b", "*"),
    "pkg_tok": ("a+b", "ab", "a+*", "a+b*", "*+b", "a.*", "*.b", "a*b", "*"),
    "slot_tok": ("1.0", "1+0", "1.*", "*.0", "1.0*", "1+*", "*+0", "1*0"),
    "sub_tok": ("x.y", "x+y", "x.*", "*.y", "x.y*", "x+*", "*+y", "x*y"),
    "ver_forms": (None, ("=", "2")),
    "repo_forms": (None, "r1"),
}


# third universe: single-'*' globs with a literal on both sides whose prefix end equals the suffix start, next to
# values shorter than prefix+suffix that still start with the prefix and end with the suffix ('a*a' vs 'a',
# 'ab*ba' vs 'aba', '1.*.1' vs '1.1'); a shell pattern needs the two literals not to overlap
OV = {
    "cats": ("a", "aa", "aba", "abba", "ab"),
    "pkgs": ("a", "aba", "abba", "ab"),
    "vers": ("1",),
    "slots": ("1", "1.1", "1.0.1", "11"),
    "subs": ("a", "aba", "abba", "1.1", "1.0.1"),
    "repos": ("r1",),
    "cat_tok": (None, "a*a", "ab*ba", "ab*a", "a*ba", "*"),
    "pkg_tok": ("a*a", "ab*ba", "a*ba", "aba", "*"),
    "slot_tok": ("1.*.1", "1*1", "1.*1", "1.1"),
    "sub_tok": ("a*a", "ab*ba", "1.*.1", "1*.1"),
    "sub_with_slots": ("*", "1.1"),
    "ver_forms": (None, ("=", "1")),
    "repo_forms": (None, "r1"),
}
DP["sub_with_slots"] = ("1.0", "*", "1.*")
SECONDARY = {"dp": DP, "ov": OV}


def sec_slot_forms(u):
    st, ss = u["slot_tok"], u["sub_tok"]
    out = [(None, None)] + [(s, None) for s in st]
    out += [(s, x) for s in u["sub_with_slots"] for x in ss]
    return out


_universes = {}


def universe(uni="main"):
    if uni not in _universes:
        from pkgcore.test.misc import FakePkg, FakeRepo

        if uni == "main":
            dims = (CATS, PKGS, VERS, SLOTS, SUBS, REPOS)
        else:
            u = SECONDARY[uni]
            dims = (u["cats"], u["pkgs"], u["vers"], u["slots"], u["subs"], u["repos"])
        repos = {r: FakeRepo(repo_id=r) for r in dims[5]}
        out = []
        for c, n, v, s, ss, r in itertools.product(*dims):
            out.append(((c, n, v, s, ss, r), FakePkg(f"{c}/{n}-{v}", slot=s, subslot=ss, repo=repos[r])))
        _universes[uni] = out
    return _universes[uni]


def mk_pkg(f):
    from pkgcore.test.misc import FakePkg, FakeRepo

    c, n, v, s, ss, r = f
    return FakePkg(f"{c}/{n}-{v}", slot=s, subslot=ss, repo=FakeRepo(repo_id=r))


def fmt_pkg(f):
    return f"{f[0]}/{f[1]}-{f[2]}:{f[3]}/{f[4]}::{f[5]}"


# ----------------------------------------------------------------------------------------------
# checking function shared by work() and replay()


def parse(text):
    """-> ("ok", restriction) | ("reject", message)"""
    from pkgcore.util.parserestrict import ParseError, parse_match

    try:
        return "ok", parse_match(text)
    except ParseError as e:
        return "reject", str(e)


def check_parse(p):
    """Judge acceptance. Returns (restriction or None, violation message or None)."""
    text = assemble(p)
    st, r = parse(text)
    if p.get("bang"):
        if st != "reject":
            return None, f"blocker string {text!r} was accepted: {r}"
        return None, None
    if st == "reject":
        return None, f"query {text!r} was rejected: {r}"
    return r, None


def expected_for(p, f, pkg, atom_obj):
    if atom_obj is not None:
        return bool(atom_obj.match(pkg))
    return ref_select(p, f)


def atom_oracle(p):
    if not is_plain_atom(p):
        return None
    from pkgcore.ebuild.atom import atom

    return atom(assemble(p))


def not_an_atom(p):
    """A string shaped like a plain atom that atom() itself refuses is not a 'plain atom string'; the statement
    says nothing about it, so it is skipped (counted in class 'not-an-atom')."""
    if p.get("bang") or not is_plain_atom(p):
        return False
    from pkgcore.ebuild import errors
    from pkgcore.ebuild.atom import atom

    try:
        atom(assemble(p))
    except errors.MalformedAtom:
        return True
    return False


def check_one(p, f, pkg=None, r=None):
    """One (query, package). Returns violation message or None."""
    if r is None:
        r, msg = check_parse(p)
        if msg or r is None:
            return msg
    if pkg is None:
        pkg = mk_pkg(f)
    a = atom_oracle(p)
    exp = expected_for(p, tuple(f), pkg, a)
    got = bool(r.match(pkg))
    if got != exp:
        how = "atom.match" if a is not None else "reference"
        return f"query {assemble(p)!r} {'selects' if got else 'does not select'} {fmt_pkg(f)} but the {how} says {'selected' if exp else 'not selected'} (parsed as {r})"
    return None


def replay(case):
    p = case["pat"]
    if case.get("pkg") is None:
        _, msg = check_parse(p)
        return [msg] if msg else []
    msg = check_one(p, case["pkg"])
    return [msg] if msg else []


# ----------------------------------------------------------------------------------------------
# enumeration

def cat_forms(tier):
    return (None,) + TOKENS[tier]


def tasks(tier):
    out = []
    for ci in range(len(cat_forms(tier))):
        for pi in range(len(TOKENS[tier])):
            for vi in range(len(VER_FORMS[tier])):
                out.append((tier, ci, pi, vi))
    for name, u in SECONDARY.items():
        for ci in range(len(u["cat_tok"])):
            for pi in range(len(u["pkg_tok"])):
                out.append((tier, name, ci, pi))
    return out


def task_universe(task):
    return task[1] if task[1] in SECONDARY else "main"


def patterns_of(task):
    if task[1] in SECONDARY:
        tier, name, ci, pi = task
        u = SECONDARY[name]
        for vf, (s, ss), repo in itertools.product(u["ver_forms"], sec_slot_forms(u), u["repo_forms"]):
            p = {"cat": u["cat_tok"][ci], "pkg": u["pkg_tok"][pi], "op": vf[0] if vf else None, "ver": vf[1] if vf else None, "slot": s, "sub": ss, "repo": repo}
            if excluded(p):
                continue
            yield p
        return
    tier, ci, pi, vi = task
    vf = VER_FORMS[tier][vi]
    sf = slot_forms(tier)
    for (s, ss), repo in itertools.product(sf, (None,) + REPOS):
        p = {"cat": cat_forms(tier)[ci], "pkg": TOKENS[tier][pi], "op": vf[0] if vf else None, "ver": vf[1] if vf else None, "slot": s, "sub": ss, "repo": repo}
        if excluded(p):
            continue
        yield p
        # blocker prefixes: every string in thorough; in quick only the slot-less ones
        if tier == "thorough" or s is None:
            for bang in ("!", "!!"):
                q = dict(p)
                q["bang"] = bang
                yield q


MAX_UNKNOWN = 40
MAX_KNOWN_PER_CLASS = 4


def work(task):
    uni = universe(task_universe(task))
    evals = 0
    classes = {}
    unknown, known = [], {}
    samples = []

    def record(case):
        for name, fn in CLASSIFIERS.items():
            if fn(case):
                l = known.setdefault(name, [])
                if len(l) < MAX_KNOWN_PER_CLASS:
                    l.append(case)
                return
        if len(unknown) < MAX_UNKNOWN:
            unknown.append(case)

    for p in patterns_of(task):
        text = assemble(p)
        if not_an_atom(p):
            classes["not-an-atom"] = classes.get("not-an-atom", 0) + 1
            continue
        r, msg = check_parse(p)
        evals += 1
        route = ("op" if p["op"] else "noop") + ("+slotglob" if slot_globbed(p) else "") + ({"dp": "+dotplus", "ov": "+overlap"}.get(task[1], ""))
        if msg:
            record({"q": text, "pat": p, "pkg": None, "msg": msg})
            k = ("blocker-accepted" if p.get("bang") else "rejected") + "|" + route
            classes[k] = classes.get(k, 0) + 1
            continue
        if r is None:  # blocker correctly rejected
            classes["blocker-rejected"] = classes.get("blocker-rejected", 0) + 1
            continue
        a = atom_oracle(p)
        nsel = 0
        seen = set()
        for f, pkg in uni:
            evals += 1
            exp = expected_for(p, f, pkg, a)
            got = bool(r.match(pkg))
            nsel += exp
            if got != exp and got not in seen:
                # the first (smallest) package per direction is enough
                seen.add(got)
                record({"q": text, "pat": p, "pkg": list(f), "msg": check_one(p, f, pkg, r)})
        sel = "none" if nsel == 0 else ("all" if nsel == len(uni) else "some")
        k = f"{type(r).__name__}|{route}|{sel}"
        classes[k] = classes.get(k, 0) + 1
        if len(samples) < 1 and nsel:
            samples.append({"query": text, "selects": nsel, "of": len(uni)})
    viol = unknown + [c for l in known.values() for c in l]
    return {"evals": evals, "classes": classes, "viol": viol, "samples": samples, "keep_all_viol": True}


# ----------------------------------------------------------------------------------------------
# narrow classifiers for known_findings.json


def _globbed_version_drops_slot_repo(case):
    """A globbed category/package with a version operator: the slot / sub-slot / repository constraints are dropped,
    so a package failing only those is selected."""
    p = case["pat"]
    if case.get("pkg") is None or not p["op"]:
        return False
    if not ("*" in (p["cat"] or "") or "*" in p["pkg"]):
        return False
    if p["slot"] is None and not p["repo"]:
        return False
    f = tuple(case["pkg"])
    q = dict(p, slot=None, sub=None, repo=None)
    # selected by the implementation although the reference rejects it, and the reference accepts it once the
    # slot/repo constraints are removed
    return "selects" in case["msg"] and not ref_select(p, f) and ref_select(q, f)


def _slot_glob_needs_globbed_target(case):
    """A glob in the slot / sub-slot position is rejected unless the category or package part has a glob too
    (the string is handed to atom(), which refuses '*' in slot targets)."""
    p = case["pat"]
    return (
        case.get("pkg") is None
        and not p.get("bang")
        and slot_globbed(p)
        and p["cat"] is not None
        and "*" not in p["cat"]
        and "*" not in p["pkg"]
        and "rejected" in case["msg"]
    )


CLASSIFIERS = {
    "globbed-version-drops-slot-repo": _globbed_version_drops_slot_repo,
    "slot-glob-needs-globbed-target": _slot_glob_needs_globbed_target,
}
