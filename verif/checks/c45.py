"""C45 security advisories flag exactly the vulnerable installed versions.

Seam: scratch ``glsa-*.xml`` files read by the real ``pkgcore.pkgsets.glsa.GlsaDirSet`` (``iter_vulnerabilities`` ->
``generate_intersects_from_pkg_node`` -> ``generate_restrict_from_range``); every yielded advisory restriction is
matched against every package of a fixed installed set (and, in one part, driven through
``find_vulnerable_repo_pkgs`` plain and grouped) and compared with a reference evaluator of the GLSA range format.
"""

import itertools
import os
import shutil
import tempfile

from verif import ref

PROPERTY = "C45"
LEVEL = "exploration"
ENGINE = "enum"
TECHNIQUE = "bounded exhaustive enumeration of advisories x installed packages against a reference evaluator of the GLSA range format"
RULE = (
    "every advisory entry built from 1-2 vulnerable and 0-2 unaffected ranges over the range alphabet (every operator "
    "lt/le/eq/ge/gt/rlt/rle/rge/rgt x versions {1.0, 1.0-r1, 2.0} x slot attribute {none, 1}, plus eq globs {1*, 1.0*} "
    "x slot) and the arch attribute {absent, *, amd64, 'amd64 x86'} is written to a real glsa-*.xml file, read back "
    "through GlsaDirSet, and each yielded restriction is matched against every installed package (versions "
    "{0.9,1.0,1.0-r1,1.0-r2,1.1,10.0,2.0} x slots {0,1} x keywords) of the entry's name and of a foreign name; the "
    "verdict is compared with: name matches and some vulnerable range holds and no unaffected range holds and arch "
    "carried. Twelve consecutive entries share one directory and one GlsaDirSet, and a recorded case carries the smallest "
    "directory context (the entry alone, the entry plus one other, or the whole directory, order kept) in which it reproduces, "
    "so order/history-dependent behaviour inside GlsaDirSet is replayed faithfully. A class is (part = shape of the entry, most special range kind involved (plain / r-op / revisionless r-op shortcut / glob), "
    "slot and arch involvement, whether any package is affected, outcome)."
)
ASSUMPTIONS = [
    "Excl: the verdict for a <package> entry GlsaDirSet cannot translate (rlt on a version without revision = guaranteed-empty range, glob on a non-eq operator, "
    "malformed version, unknown operator, missing version text): the statement does not say what an invalid entry yields, so such entries are never judged themselves "
    "- but the ordinary entries listed before and after them in the same advisory are judged as usual (part P8)",
    "Excl: glob bases ending in a letter / number-less suffix / -r0 or with leading zeros (component prefix arguable there); a glob base with a revision "
    "(eq 1.2-r1*) matches exactly the versions whose component list starts with 1, 2, -r1, i.e. 1.2-r1 only (1.2-r10 is a raw-string match, see known finding glob-raw-string-prefix)",
    "Excl: slot='*' attributes, keywords with ~ or - prefixes, empty arch attribute, arch lists mixing * with names",
    "Excl: malformed XML",
    "Excl: SecurityUpgrades (needs a configured repo stack); find_vulnerable_repo_pkgs is driven with arch=None on a FakeRepo",
    "version comparison reference = verif.ref PMS algorithm (C01); r-ops: equal version ignoring revision, then integer revision comparison (missing = 0)",
]
BOUNDS = {
    "quick": "P1: 1 vulnerable x 0-1 unaffected (54 x 55 entries) x 4 arch values x 42 packages, also via find_vulnerable_repo_pkgs; "
    "P2: all unordered pairs of vulnerable ranges x 0-1 unaffected x 14 packages; P3: 1 vulnerable x all unordered pairs of unaffected ranges; "
    "P4: grouped iteration over pairs of advisories for one package from a 14-range sub-alphabet; "
    "P6: for each of the 27 (operator, version) ranges, directories holding its slotted and unslotted spelling in both orders "
    "(two consecutive entries / one entry, as vulnerable / unaffected / one of each). Entries are read 12 per directory by one GlsaDirSet; "
    "P7: eq globs with a revision in the base (1.2-r1*, 1-r1*, with/without slot) as vulnerable and as unaffected ranges against versions "
    "{1.2, 1.2-r1, 1.2-r10, 1.2-r2, 1.2.5, 1.20, 1-r1, 2.0}; P8: advisories of 2-3 <package> entries with one untranslatable entry "
    "(5 kinds x 3 placements inside the entry) first / in the middle / last, the ordinary entries judged",
    "thorough": "as quick plus P5: all unordered pairs of vulnerable x all unordered pairs of unaffected ranges x 14 packages",
}

# ----------------------------------------------------------------------------------------------------------------
# alphabet
# ----------------------------------------------------------------------------------------------------------------
OPS = ("lt", "le", "eq", "ge", "gt", "rlt", "rle", "rge", "rgt")
RVERSIONS = ("1.0", "1.0-r1", "2.0")
GLOBS = ("1*", "1.0*")
SLOTS = ("", "1")


def range_alphabet():
    out = []
    for op in OPS:
        for v in RVERSIONS:
            if op == "rlt" and "-r" not in v:
                continue  # Excl
            for s in SLOTS:
                out.append((op, v, s))
    for g in GLOBS:
        for s in SLOTS:
            out.append(("eq", g, s))
    return out


RANGES = range_alphabet()  # 9 ops x 3 versions x 2 slots - 4 excluded rlt + 4 globs = 54
# a sub-alphabet with one representative per code path
SUB = [
    ("lt", "2.0", ""),
    ("le", "1.0-r1", ""),
    ("eq", "1.0", ""),
    ("ge", "1.0-r1", "1"),
    ("gt", "1.0", ""),
    ("rlt", "1.0-r1", ""),
    ("rle", "1.0", ""),
    ("rle", "1.0", "1"),
    ("rge", "1.0", ""),
    ("rge", "1.0", "1"),
    ("rgt", "1.0", ""),
    ("rge", "1.0-r1", "1"),
    ("eq", "1*", ""),
    ("eq", "1.0*", "1"),
]
ARCHES = (None, "*", "amd64", "amd64 x86")
PVERSIONS = ("0.9", "1.0", "1.0-r1", "1.0-r2", "1.1", "10.0", "2.0")
PSLOTS = ("0", "1")
PKEYWORDS = (("amd64",), ("x86", "arm"), ("arm",))
NAMES = [f"cat/p{i}" for i in range(12)]
FOREIGN = "cat/other"
BATCH = len(NAMES)


# P7: eq globs whose base carries a revision; the package versions separate "prefix of the full version" from
# "prefix of the version without its revision"
RGLOBS = ("1.2-r1*", "1-r1*")
PVERSIONS_REV = ("1.2", "1.2-r1", "1.2-r10", "1.2-r2", "1.2.5", "1.20", "1-r1", "2.0")
# P8: <package> entries GlsaDirSet cannot use (they raise while being translated); they are never judged themselves
BAD_RANGES = [
    ("rlt-revisionless", ["rlt", "1.0", ""]),
    ("glob-on-non-eq", ["ge", "1*", ""]),
    ("malformed-version", ["eq", "1..0", ""]),
    ("unknown-operator", ["xx", "1.0", ""]),
    ("missing-version", ["lt", "", ""]),
]
GOOD_ENTRIES = [
    {"vuln": [["lt", "2.0", ""]], "unaff": [], "arch": None},
    {"vuln": [["ge", "1.0", ""]], "unaff": [["ge", "2.0", ""]], "arch": None},
    {"vuln": [["eq", "1.0-r1", "1"]], "unaff": [], "arch": None},
]


def packages_for(full, pvers=None):
    kws = PKEYWORDS if full else PKEYWORDS[:1]
    versions = PVERSIONS_REV if pvers == "rev" else PVERSIONS
    return [(v, s, list(k)) for v in versions for s in PSLOTS for k in kws]


# ----------------------------------------------------------------------------------------------------------------
# reference evaluator (plain Python; only verif.ref)
#   defects: optional set of switches reproducing known pkgcore deviations, used only by the CLASSIFIERS
# ----------------------------------------------------------------------------------------------------------------
def _rev(fullver):
    r = ref.parse_version(fullver)[4]
    return int(r) if r else 0


def range_holds(rng, pver, pslot, defects=()):
    op, ver, slot = rng
    glob = ver.endswith("*")
    revless_shortcut = (not glob) and op in ("rle", "rge") and "-r" not in ver
    ignore_slot = (glob and "glob-slot-ignored" in defects) or (revless_shortcut and "rrange-slot-ignored" in defects)
    if slot and not ignore_slot and slot != pslot:
        return False
    if glob:
        base = ver[:-1]
        if "glob-raw-string-prefix" in defects:
            return pver.startswith(base)
        bc = ref.components(base)
        return ref.components(pver)[: len(bc)] == bc
    if op in ("lt", "le", "eq", "ge", "gt"):
        c = ref.pms_ver_cmp(pver, ver)
    else:
        if ref.pms_ver_cmp(pver, ver, ignore_rev=True) != 0:
            return False
        a, b = _rev(pver), _rev(ver)
        c = (a > b) - (a < b)
        op = op[1:]
    return {"lt": c < 0, "le": c <= 0, "eq": c == 0, "ge": c >= 0, "gt": c > 0}[op]


def affected(entry, pkg, defects=()):
    """entry: {"name","vuln":[rng],"unaff":[rng],"arch":str|None}; pkg: [name, fullver, slot, keywords]"""
    name, pver, pslot, kws = pkg
    if name != entry["name"]:
        return False
    if not any(range_holds(tuple(r), pver, pslot, defects) for r in entry["vuln"]):
        return False
    for u in entry["unaff"]:
        u = tuple(u)
        h = range_holds(u, pver, pslot, defects)
        if u[1].endswith("*") and "unaffected-glob-not-negated" in defects:
            if not h:
                return False  # the glob acts as a further requirement instead of an exemption
        elif h:
            return False
    arch = entry.get("arch")
    if arch is not None:
        names = arch.split()
        if names and "*" not in names and not (set(names) & set(kws)):
            return False
    return True


# ----------------------------------------------------------------------------------------------------------------
# driving the real code
# ----------------------------------------------------------------------------------------------------------------
def _xml_range(kind, rng):
    op, ver, slot = rng
    s = f' slot="{slot}"' if slot else ""
    return f'<{kind} range="{op}"{s}>{ver}</{kind}>'


def glsa_xml(gid, entries):
    pk = []
    for e in entries:
        arch = "" if e.get("arch") is None else f' arch="{e["arch"]}"'
        body = "".join(_xml_range("unaffected", r) for r in e["unaff"]) + "".join(_xml_range("vulnerable", r) for r in e["vuln"])
        pk.append(f'<package name="{e["name"]}" auto="yes"{arch}>{body}</package>')
    return (
        '<?xml version="1.0" encoding="UTF-8"?>\n'
        f'<glsa id="{gid}"><title>t</title><synopsis>s</synopsis><product type="ebuild">p</product>'
        f"<affected>{''.join(pk)}</affected></glsa>\n"
    )


_cache = {}


def _pkgobj(name, ver, slot, kws):
    k = (name, ver, slot, tuple(kws))
    o = _cache.get(k)
    if o is None:
        import logging

        logging.getLogger("pkgcore").setLevel(logging.CRITICAL + 10)
        from pkgcore.test.misc import FakePkg

        o = _cache[k] = FakePkg(f"{name}-{ver}", slot=slot, keywords=tuple(kws))
    return o


def write_files(dirpath, files):
    for fn in os.listdir(dirpath):
        os.unlink(os.path.join(dirpath, fn))
    for fn, entries in files.items():
        with open(os.path.join(dirpath, fn), "w") as f:
            f.write(glsa_xml(fn[5:-4], entries))


def observe_iter(dirpath):
    """-> {name: [restriction, ...]} from iter(GlsaDirSet)"""
    from pkgcore.pkgsets import glsa

    out = {}
    for r in glsa.GlsaDirSet(dirpath):
        out.setdefault(str(r.key), []).append(r)
    return out


def _msg(entry, pkg, obs, exp, how):
    return (
        f"{how}: package {pkg[0]}-{pkg[1]}:{pkg[2]} keywords={pkg[3]} reported {'affected' if obs else 'not affected'}, "
        f"GLSA format says {'affected' if exp else 'not affected'} (vulnerable={entry['vuln']} unaffected={entry['unaff']} arch={entry.get('arch')!r})"
    )


# ----------------------------------------------------------------------------------------------------------------
# enumeration
# ----------------------------------------------------------------------------------------------------------------
def pairs(alpha):
    return list(itertools.combinations(alpha, 2))


# P6: the same (operator, version) range with and without a slot attribute inside one directory, in both orders
BASES = list(dict.fromkeys((op, ver) for op, ver, _s in RANGES))


def same_range_dirs(base):
    """yield entry lists (one directory each): the slotted and the unslotted spelling of one range, both orders,
    as vulnerable or as unaffected ranges, in two consecutive entries or inside one entry"""
    op, ver = base
    other = ["ge", "1.0", ""] if base == ("lt", "2.0") else ["lt", "2.0", ""]
    for kind in ("vuln", "unaff"):
        for s1, s2 in (("", "1"), ("1", "")):
            r1, r2 = [op, ver, s1], [op, ver, s2]
            if kind == "vuln":
                yield [{"vuln": [r1], "unaff": [], "arch": None}, {"vuln": [r2], "unaff": [], "arch": None}]
                yield [{"vuln": [r1, r2], "unaff": [], "arch": None}]
            else:
                yield [{"vuln": [other], "unaff": [r1], "arch": None}, {"vuln": [other], "unaff": [r2], "arch": None}]
                yield [{"vuln": [other], "unaff": [r1, r2], "arch": None}]
            # and the two spellings on opposite sides of one entry / of two consecutive entries
            yield [{"vuln": [r1], "unaff": [r2], "arch": None}]
            yield [{"vuln": [r1], "unaff": [], "arch": None}, {"vuln": [other], "unaff": [r2], "arch": None}]


def revision_glob_entries():
    """P7: each revision glob (with and without slot) as the only vulnerable range, next to a second vulnerable range,
    with each unaffected range of a small set, and as the unaffected range of each vulnerable range of that set"""
    others = [["ge", "1.0", ""], ["lt", "2.0", ""], ["eq", "1.2-r1", ""], ["rge", "1.2", ""], ["le", "1.2-r2", "1"], ["gt", "1.2-r1", ""]]
    out = []
    for g in RGLOBS:
        for sl in SLOTS:
            r = ["eq", g, sl]
            out.append({"vuln": [r], "unaff": [], "arch": None})
            for o in others:
                out.append({"vuln": [r], "unaff": [o], "arch": None})
                out.append({"vuln": [o], "unaff": [r], "arch": None})
                out.append({"vuln": [o, r], "unaff": [], "arch": None})
                out.append({"vuln": [r, o], "unaff": [], "arch": None})
    for g1, g2 in ((RGLOBS[0], RGLOBS[1]), (RGLOBS[1], RGLOBS[0])):
        out.append({"vuln": [["eq", g1, ""]], "unaff": [["eq", g2, ""]], "arch": None})
    return out


def unusable_entry_dirs(bi):
    """P8: advisories with 2-3 <package> entries, one of which cannot be translated (as a vulnerable or as an
    unaffected range), placed first / in the middle / last; the other entries are ordinary"""
    kind, bad = BAD_RANGES[bi]
    bads = [
        {"vuln": [bad], "unaff": [], "arch": None, "unjudged": kind},
        {"vuln": [["lt", "2.0", ""], bad], "unaff": [], "arch": None, "unjudged": kind},
        {"vuln": [["lt", "2.0", ""]], "unaff": [bad], "arch": None, "unjudged": kind},
    ]
    for b in bads:
        for g in GOOD_ENTRIES:
            yield [b, g]
            yield [g, b]
        for g1, g2 in itertools.permutations(GOOD_ENTRIES, 2):
            yield [b, g1, g2]
            yield [g1, b, g2]
            yield [g1, g2, b]


def tasks(tier):
    out = []
    nr = len(RANGES)
    out.append(("P7", tier, 0))
    for i in range(len(BAD_RANGES)):
        out.append(("P8", tier, i))
    for i in range(len(BASES)):
        out.append(("P6", tier, i))
    for i in range(nr):
        out.append(("P1", tier, i))
    pr = pairs(range(nr))
    chunk = 24
    for lo in range(0, len(pr), chunk):
        out.append(("P2", tier, lo, min(lo + chunk, len(pr))))
    for i in range(nr):
        out.append(("P3", tier, i))
    for i in range(len(SUB)):
        out.append(("P4", tier, i))
    if tier == "thorough":
        for lo in range(0, len(pr), 4):
            out.append(("P5", tier, lo, min(lo + 4, len(pr))))
    return out


def gen(task):
    """yield (part, entry-without-name) in a fixed order"""
    kind = task[0]
    if kind == "P1":
        v = RANGES[task[2]]
        for u in [None] + RANGES:
            for a in ARCHES:
                yield "P1", {"vuln": [list(v)], "unaff": [] if u is None else [list(u)], "arch": a}
    elif kind == "P2":
        pr = pairs(range(len(RANGES)))
        for i, j in pr[task[2] : task[3]]:
            for u in [None] + RANGES:
                yield "P2", {"vuln": [list(RANGES[i]), list(RANGES[j])], "unaff": [] if u is None else [list(u)], "arch": None}
    elif kind == "P3":
        v = RANGES[task[2]]
        for u1, u2 in pairs(RANGES):
            yield "P3", {"vuln": [list(v)], "unaff": [list(u1), list(u2)], "arch": None}
    elif kind == "P5":
        pr = pairs(range(len(RANGES)))
        for i, j in pr[task[2] : task[3]]:
            for u1, u2 in pairs(RANGES):
                yield "P5", {"vuln": [list(RANGES[i]), list(RANGES[j])], "unaff": [list(u1), list(u2)], "arch": None}


def _kinds(entry):
    ks = set()
    for r in entry["vuln"] + entry["unaff"]:
        op, ver, slot = r
        if ver.endswith("*"):
            ks.add("glob")
        elif op.startswith("r"):
            ks.add("rshort" if (op in ("rle", "rge") and "-r" not in ver) else "rop")
        else:
            ks.add("plain")
        if slot:
            ks.add("slot")
    return ks


def _kind(ks):
    return "glob" if "glob" in ks else "rshort" if "rshort" in ks else "rop" if "rop" in ks else "plain"


def classify(part, entry, vec, bad):
    ks = _kinds(entry)
    arch = "" if entry.get("arch") in (None, "*") else ":arch-limited"
    slot = "+slot" if "slot" in ks and part == "P1" else ""
    verdict = "some-affected" if any(vec) else "none-affected"
    return f"{part}:{_kind(ks)}{slot}{arch}:{verdict}:{'BAD' if bad else 'ok'}"



def _pkgs_for_entry(e, pk, foreign=True):
    out = [[e["name"], v, s, k] for v, s, k in pk]
    if foreign:
        out += [[FOREIGN, "1.0", "0", ["amd64"]], [FOREIGN, "1.0-r1", "1", ["amd64"]]]
    return out


def evaluate(dirpath, ctx):
    """Re-create the directory described by ctx and evaluate it exactly the way work() does: the same files with the
    same entries in the same order are read by ONE GlsaDirSet (so anything GlsaDirSet remembers between entries is
    reproduced), every entry's restriction is matched against the same package list in the same order.
    ctx = {"mode": "plain"|"grouped", "full": bool, "files": [[file name, [entry, ...]], ...], optional "pvers": "rev"}
    -> list over entries (of the first file) of list of [pkg, observed_iter|None, observed_repo|None]"""
    files = {fn: ents for fn, ents in ctx["files"]}
    write_files(dirpath, files)
    pk = packages_for(ctx["full"], ctx.get("pvers"))
    entries = ctx["files"][0][1]
    out = []
    if ctx["mode"] == "grouped":
        obs = _observe_repo(dirpath, [e["name"] for e in entries], pk, grouped=True)
        for e in entries:
            hit = obs.get(e["name"], set())
            out.append([[pkg, None, (pkg[0], pkg[1], pkg[2], tuple(pkg[3])) in hit] for pkg in _pkgs_for_entry(e, pk, foreign=False)])
        return out
    got = observe_iter(dirpath)
    repo_obs = None
    if ctx["full"]:
        repo_obs = _observe_repo(dirpath, [e["name"] for e in entries] + [FOREIGN], pk, grouped=False)
    for e in entries:
        rs = got.get(e["name"], [])
        rows = []
        for pkg in _pkgs_for_entry(e, pk):
            if not rs:
                o = False
            else:
                obj = _pkgobj(*pkg)
                o = any(bool(r.match(obj)) for r in rs)
            r = None
            if repo_obs is not None:
                r = (pkg[0], pkg[1], pkg[2], tuple(pkg[3])) in repo_obs.get(e["name"], set())
            rows.append([pkg, o, r])
        out.append(rows)
    return out


def _expected_ctx(ctx, idx, pkg, defects=()):
    exp = False
    for _fn, ents in ctx["files"]:
        exp = exp or affected(ents[idx], pkg, defects)
    return exp


def _pick(rows, pkg, how):
    for p, o, r in rows:
        if p == pkg:
            return o if how == "iter" else r
    raise AssertionError(f"harness: package {pkg} not part of the evaluated context")


def _sub_ctx(ctx, keep):
    sub = {"mode": ctx["mode"], "full": ctx["full"], "files": [[fn, [ents[i] for i in keep]] for fn, ents in ctx["files"]]}
    if "pvers" in ctx:
        sub["pvers"] = ctx["pvers"]
    return sub


def shrink(dirpath, ctx, idx, pkg, how, obs):
    """smallest sub-context (the entry alone; the entry plus one other entry, original order kept; the whole batch)
    in which the recorded observation reproduces -> (ctx, idx)"""
    n = len(ctx["files"][0][1])
    cands = [[idx]] + [sorted([j, idx]) for j in range(n) if j != idx]
    for keep in cands:
        sub = _sub_ctx(ctx, keep)
        k = keep.index(idx)
        if _pick(evaluate(dirpath, sub)[k], pkg, how) == obs:
            return sub, k
    return ctx, idx


HOW = {"iter": "GlsaDirSet restriction", "repo": "find_vulnerable_repo_pkgs", "grouped": "grouped find_vulnerable_repo_pkgs"}


def _mkcase(ctx, idx, pkg, how, obs, exp):
    e = ctx["files"][0][1][idx]
    c = {"entry": e, "pkg": pkg, "obs": obs, "how": how, "ctx": ctx, "idx": idx}
    text = HOW[how]
    if ctx["mode"] == "grouped":
        c["entry2"] = ctx["files"][1][1][idx]
        text += f" (second advisory vulnerable={c['entry2']['vuln']} unaffected={c['entry2']['unaff']})"
    others = len(ctx["files"][0][1]) - 1
    if others:
        text += f" [with {others} other entr{'y' if others == 1 else 'ies'} read earlier/later by the same GlsaDirSet, see ctx]"
    c["msg"] = _msg(e, pkg, obs, exp, text)
    return c


MAX_UNKNOWN = 40
MAX_KNOWN = 8


class _Collector:
    """keeps violations not explained by a listed known finding ahead of (and apart from) the explained ones, so the
    runner's per-task cap can never hide an unknown violation behind known ones."""

    def __init__(self):
        self.unknown = []
        self.known = []

    def add(self, ctx, idx, pkg, how, obs, exp):
        light = {"entry": ctx["files"][0][1][idx], "pkg": pkg, "obs": obs, "how": how}
        if ctx["mode"] == "grouped":
            light["entry2"] = ctx["files"][1][1][idx]
        listed = _listed_findings()
        is_known = any(CLASSIFIERS[k](light) for k in listed if k in CLASSIFIERS)
        dest, cap = (self.known, MAX_KNOWN) if is_known else (self.unknown, MAX_UNKNOWN)
        if len(dest) < cap:
            dest.append((ctx, idx, pkg, how, obs, exp))

    def cases(self, dirpath):
        out = []
        for ctx, idx, pkg, how, obs, exp in self.unknown + self.known:
            sctx, sidx = shrink(dirpath, ctx, idx, pkg, how, obs)
            out.append(_mkcase(sctx, sidx, pkg, how, obs, exp))
        return out


def _run_ctx(dirpath, ctx, part, coll, classes, samples):
    """evaluate one directory, judge every entry x package -> number of evaluations"""
    res = evaluate(dirpath, ctx)
    evals = 0
    for idx, rows in enumerate(res):
        e = ctx["files"][0][1][idx]
        if e.get("unjudged"):
            k = f"{part}:unusable-entry-{e['unjudged']}:unjudged"
            classes[k] = classes.get(k, 0) + 1
            continue
        vec = []
        nbad = 0
        for pkg, o, r in rows:
            exp = _expected_ctx(ctx, idx, pkg)
            vec.append(exp)
            for how, got in (("iter", o), ("grouped" if ctx["mode"] == "grouped" else "repo", r)):
                if got is None:
                    continue
                evals += 1
                if got != exp:
                    nbad += 1
                    if nbad <= 6:
                        coll.add(ctx, idx, pkg, how, got, exp)
        if ctx["mode"] == "grouped":
            ks = _kinds(e) | _kinds(ctx["files"][1][1][idx])
            k = f"P4-grouped:{_kind(ks)}:{'some-affected' if any(vec) else 'none-affected'}:{'BAD' if nbad else 'ok'}"
        elif part == "P8":
            pos = [i for i, x in enumerate(ctx["files"][0][1]) if x.get("unjudged")][0]
            rel = "before" if idx < pos else "after"
            k = f"P8:good-entry-{rel}-unusable-one:{'some-affected' if any(vec) else 'none-affected'}:{'BAD' if nbad else 'ok'}"
        else:
            k = classify(part, e, vec, bool(nbad))
        classes[k] = classes.get(k, 0) + 1
        if not samples and not nbad and 0 < sum(vec) < len(vec) and e["unaff"]:
            samples.append({"entry": e, "affected": [f"{p[0][1]}:{p[0][2]}" for p, x in zip(rows, vec) if x]})
    return evals


def _sub_entries():
    ents = []
    for v in SUB:
        for u in [None] + SUB:
            ents.append({"vuln": [list(v)], "unaff": [] if u is None else [list(u)], "arch": None})
    return ents


def contexts(task):
    """yield (part, ctx) for a task, in a fixed order"""
    kind = task[0]
    if kind == "P4":
        ents = _sub_entries()
        per = len(SUB) + 1
        first = ents[task[2] * per : (task[2] + 1) * per]
        todo = [(a, b) for a in first for b in ents]
        for lo in range(0, len(todo), BATCH):
            f1, f2 = [], []
            for i, (a, b) in enumerate(todo[lo : lo + BATCH]):
                f1.append(dict(a, name=NAMES[i]))
                f2.append(dict(b, name=NAMES[i]))
            yield "P4", {"mode": "grouped", "full": False, "files": [["glsa-200001-01.xml", f1], ["glsa-200001-02.xml", f2]]}
        return
    if kind == "P7":
        ents = revision_glob_entries()
        for lo in range(0, len(ents), BATCH):
            batch = [dict(e, name=NAMES[i]) for i, e in enumerate(ents[lo : lo + BATCH])]
            yield "P7", {"mode": "plain", "full": False, "pvers": "rev", "files": [["glsa-200001-01.xml", batch]]}
        return
    if kind == "P8":
        for ents in unusable_entry_dirs(task[2]):
            ents = [dict(e, name=NAMES[i]) for i, e in enumerate(ents)]
            yield "P8", {"mode": "plain", "full": False, "files": [["glsa-200001-01.xml", ents]]}
        return
    if kind == "P6":
        for ents in same_range_dirs(BASES[task[2]]):
            ents = [dict(e, name=NAMES[i]) for i, e in enumerate(ents)]
            yield "P6", {"mode": "plain", "full": False, "files": [["glsa-200001-01.xml", ents]]}
        return
    full = kind == "P1"
    batch = []
    for part, e in gen(task):
        batch.append(dict(e, name=NAMES[len(batch)]))
        if len(batch) == BATCH:
            yield part, {"mode": "plain", "full": full, "files": [["glsa-200001-01.xml", batch]]}
            batch = []
    if batch:
        yield kind, {"mode": "plain", "full": full, "files": [["glsa-200001-01.xml", batch]]}


def work(task):
    root = tempfile.mkdtemp(dir="/dev/shm", prefix=f"verif-{PROPERTY}-{os.getpid()}-")
    dirpath = os.path.join(root, "glsa")
    os.mkdir(dirpath)
    evals = 0
    classes = {}
    samples = []
    coll = _Collector()
    try:
        for part, ctx in contexts(task):
            evals += _run_ctx(dirpath, ctx, part, coll, classes, samples)
        viol = coll.cases(dirpath)
    finally:
        shutil.rmtree(root, ignore_errors=True)
    return {"evals": evals, "classes": classes, "viol": viol, "samples": samples}


def _observe_repo(dirpath, names, pk, grouped):
    """find_vulnerable_repo_pkgs over a FakeRepo holding every package of every name -> {name: set(pkg tuples)}"""
    from pkgcore.pkgsets import glsa
    from pkgcore.test.misc import FakeRepo

    objs = []
    back = {}
    for n in names:
        for v, s, k in pk:
            o = _pkgobj(n, v, s, k)
            objs.append(o)
            back[id(o)] = (n, v, s, tuple(k))
    repo = FakeRepo(pkgs=objs)
    out = {}
    for restrict, matches in glsa.find_vulnerable_repo_pkgs(glsa.GlsaDirSet(dirpath), repo, grouped=grouped):
        out.setdefault(str(restrict.key), set()).update(back[id(m)] for m in matches)
    return out


def _case_ctx(case):
    """the evaluation context of a recorded case; cases recorded before contexts existed (known_findings examples)
    describe a directory holding just their own entry"""
    if "ctx" in case:
        return case["ctx"], case["idx"]
    files = [["glsa-200001-01.xml", [case["entry"]]]]
    if case["how"] == "grouped":
        files.append(["glsa-200001-02.xml", [case["entry2"]]])
    full = case["how"] == "repo" or tuple(case["pkg"][3]) != PKEYWORDS[0]
    return {"mode": "grouped" if case["how"] == "grouped" else "plain", "full": full, "files": files}, 0


def _expected(case, defects=()):
    exp = affected(case["entry"], case["pkg"], defects)
    if case["how"] == "grouped":
        exp = exp or affected(case["entry2"], case["pkg"], defects)
    return exp


def replay(case):
    ctx, idx = _case_ctx(case)
    root = tempfile.mkdtemp(dir="/dev/shm", prefix=f"verif-{PROPERTY}-{os.getpid()}-")
    try:
        dirpath = os.path.join(root, "glsa")
        os.mkdir(dirpath)
        obs = _pick(evaluate(dirpath, ctx)[idx], case["pkg"], case["how"])
    finally:
        shutil.rmtree(root, ignore_errors=True)
    exp = _expected_ctx(ctx, idx, case["pkg"])
    if obs != exp:
        return [_mkcase(ctx, idx, case["pkg"], case["how"], obs, exp)["msg"]]
    return []


# --------------------------------------------------------------------------------------------------------------
# narrow classifiers: a counterexample belongs to defect D iff the reference with deviation D switched on reproduces the
# recorded observation and without it does not -- where the only other deviations that may be switched on at the same
# time are those still listed as kind=finding for C45 in known_findings.json (a fixed defect is no excuse any more).
# ----------------------------------------------------------------------------------------------------------------
DEFECTS = ("glob-raw-string-prefix", "unaffected-glob-not-negated", "glob-slot-ignored", "rrange-slot-ignored")
_listed = []


def _listed_findings():
    if not _listed:
        import json

        names = set()
        path = os.path.join(os.path.dirname(os.path.dirname(os.path.dirname(os.path.abspath(__file__)))), "known_findings.json")
        try:
            with open(path) as f:
                for e in json.load(f).get("findings", []):
                    if e.get("property") == PROPERTY and e.get("kind") == "finding":
                        names.add(e.get("predicate"))
        except OSError:
            pass
        _listed.append(names)
    return _listed[0]


def _explains(case, d):
    obs = case["obs"]
    others = [x for x in DEFECTS if x != d and x in _listed_findings()]
    for n in range(len(others) + 1):
        for sub in itertools.combinations(others, n):
            if _expected(case, set(sub) | {d}) == obs and _expected(case, set(sub)) != obs:
                return True
    return False


CLASSIFIERS = {d: (lambda case, d=d: _explains(case, d)) for d in DEFECTS}
