"""C45 security advisories flag exactly the vulnerable installed versions.

Seam: scratch ``glsa-*.xml`` files read by the real ``pkgcore.pkgsets.glsa.GlsaDirSet`` (``iter_vulnerabilities`` ->
``generate_intersects_from_pkg_node`` -> ``generate_restrict_from_range``); every yielded advisory restriction is
matched against every package of a fixed installed set (and, in one part, driven through
``find_vulnerable_repo_pkgs`` plain and grouped) and compared with a reference evaluator of the GLSA range format.
"""

import itertools
import os
import shutil
import tempfile

from verif import ref

PROPERTY = "C45"
LEVEL = "exploration"
ENGINE = "enum"
TECHNIQUE = "bounded exhaustive enumeration of advisories x installed packages against a reference evaluator of the GLSA range format"
RULE = (
    "every advisory entry built from 1-2 vulnerable and 0-2 unaffected ranges over the range alphabet (every operator "
    "lt/le/eq/ge/gt/rlt/rle/rge/rgt x versions {1.0, 1.0-r1, 2.0} x slot attribute {none, 1}, plus eq globs {1*, 1.0*} "
    "x slot) and the arch attribute {absent, *, amd64, 'amd64 x86'} is written to a real glsa-*.xml file, read back "
    "through GlsaDirSet, and each yielded restriction is matched against every installed package (versions "
    "{0.9,1.0,1.0-r1,1.0-r2,1.1,10.0,2.0} x slots {0,1} x keywords) of the entry's name and of a foreign name; the "
    "verdict is compared with: name matches and some vulnerable range holds and no unaffected range holds and arch "
    "carried. A class is (part = shape of the entry, most special range kind involved (plain / r-op / revisionless r-op shortcut / glob), "
    "slot and arch involvement, whether any package is affected, outcome)."
)
ASSUMPTIONS = [
    "Excl: rlt ranges on a version without revision (a guaranteed-empty range; pkgcore rejects the whole entry as invalid, the statement does not say what an invalid advisory yields)",
    "Excl: globs on operators other than eq, glob bases ending in a letter / number-less suffix / revision or with leading zeros (component prefix arguable there)",
    "Excl: slot='*' attributes, keywords with ~ or - prefixes, empty arch attribute, arch lists mixing * with names",
    "Excl: malformed XML / unknown operators / missing version text (invalid advisories)",
    "Excl: SecurityUpgrades (needs a configured repo stack); find_vulnerable_repo_pkgs is driven with arch=None on a FakeRepo",
    "version comparison reference = verif.ref PMS algorithm (C01); r-ops: equal version ignoring revision, then integer revision comparison (missing = 0)",
]
BOUNDS = {
    "quick": "P1: 1 vulnerable x 0-1 unaffected (54 x 55 entries) x 4 arch values x 42 packages, also via find_vulnerable_repo_pkgs; "
    "P2: all unordered pairs of vulnerable ranges x 0-1 unaffected x 14 packages; P3: 1 vulnerable x all unordered pairs of unaffected ranges; "
    "P4: grouped iteration over pairs of advisories for one package from a 14-range sub-alphabet",
    "thorough": "as quick plus P5: all unordered pairs of vulnerable x all unordered pairs of unaffected ranges x 14 packages",
}

# ----------------------------------------------------------------------------------------------------------------
# alphabet
# ----------------------------------------------------------------------------------------------------------------
OPS = ("lt", "le", "eq", "ge", "gt", "rlt", "rle", "rge", "rgt")
RVERSIONS = ("1.0", "1.0-r1", "2.0")
GLOBS = ("1*", "1.0*")
SLOTS = ("", "1")


def range_alphabet():
    out = []
    for op in OPS:
        for v in RVERSIONS:
            if op == "rlt" and "-r" not in v:
                continue  # Excl
            for s in SLOTS:
                out.append((op, v, s))
    for g in GLOBS:
        for s in SLOTS:
            out.append(("eq", g, s))
    return out


RANGES = range_alphabet()  # 9 ops x 3 versions x 2 slots - 4 excluded rlt + 4 globs = 54
# a sub-alphabet with one representative per code path
SUB = [
    ("lt", "2.0", ""),
    ("le", "1.0-r1", ""),
    ("eq", "1.0", ""),
    ("ge", "1.0-r1", "1"),
    ("gt", "1.0", ""),
    ("rlt", "1.0-r1", ""),
    ("rle", "1.0", ""),
    ("rle", "1.0", "1"),
    ("rge", "1.0", ""),
    ("rge", "1.0", "1"),
    ("rgt", "1.0", ""),
    ("rge", "1.0-r1", "1"),
    ("eq", "1*", ""),
    ("eq", "1.0*", "1"),
]
ARCHES = (None, "*", "amd64", "amd64 x86")
PVERSIONS = ("0.9", "1.0", "1.0-r1", "1.0-r2", "1.1", "10.0", "2.0")
PSLOTS = ("0", "1")
PKEYWORDS = (("amd64",), ("x86", "arm"), ("arm",))
NAMES = [f"cat/p{i}" for i in range(12)]
FOREIGN = "cat/other"
BATCH = len(NAMES)


def packages_for(full):
    kws = PKEYWORDS if full else PKEYWORDS[:1]
    return [(v, s, list(k)) for v in PVERSIONS for s in PSLOTS for k in kws]


# ----------------------------------------------------------------------------------------------------------------
# reference evaluator (plain Python; only verif.ref)
#   defects: optional set of switches reproducing known pkgcore deviations, used only by the CLASSIFIERS
# ----------------------------------------------------------------------------------------------------------------
def _rev(fullver):
    r = ref.parse_version(fullver)[4]
    return int(r) if r else 0


def range_holds(rng, pver, pslot, defects=()):
    op, ver, slot = rng
    glob = ver.endswith("*")
    revless_shortcut = (not glob) and op in ("rle", "rge") and "-r" not in ver
    ignore_slot = (glob and "glob-slot-ignored" in defects) or (revless_shortcut and "rrange-slot-ignored" in defects)
    if slot and not ignore_slot and slot != pslot:
        return False
    if glob:
        base = ver[:-1]
        if "glob-raw-string-prefix" in defects:
            return pver.startswith(base)
        bc = ref.components(base)
        return ref.components(pver)[: len(bc)] == bc
    if op in ("lt", "le", "eq", "ge", "gt"):
        c = ref.pms_ver_cmp(pver, ver)
    else:
        if ref.pms_ver_cmp(pver, ver, ignore_rev=True) != 0:
            return False
        a, b = _rev(pver), _rev(ver)
        c = (a > b) - (a < b)
        op = op[1:]
    return {"lt": c < 0, "le": c <= 0, "eq": c == 0, "ge": c >= 0, "gt": c > 0}[op]


def affected(entry, pkg, defects=()):
    """entry: {"name","vuln":[rng],"unaff":[rng],"arch":str|None}; pkg: [name, fullver, slot, keywords]"""
    name, pver, pslot, kws = pkg
    if name != entry["name"]:
        return False
    if not any(range_holds(tuple(r), pver, pslot, defects) for r in entry["vuln"]):
        return False
    for u in entry["unaff"]:
        u = tuple(u)
        h = range_holds(u, pver, pslot, defects)
        if u[1].endswith("*") and "unaffected-glob-not-negated" in defects:
            if not h:
                return False  # the glob acts as a further requirement instead of an exemption
        elif h:
            return False
    arch = entry.get("arch")
    if arch is not None:
        names = arch.split()
        if names and "*" not in names and not (set(names) & set(kws)):
            return False
    return True


# ----------------------------------------------------------------------------------------------------------------
# driving the real code
# ----------------------------------------------------------------------------------------------------------------
def _xml_range(kind, rng):
    op, ver, slot = rng
    s = f' slot="{slot}"' if slot else ""
    return f'<{kind} range="{op}"{s}>{ver}</{kind}>'


def glsa_xml(gid, entries):
    pk = []
    for e in entries:
        arch = "" if e.get("arch") is None else f' arch="{e["arch"]}"'
        body = "".join(_xml_range("unaffected", r) for r in e["unaff"]) + "".join(_xml_range("vulnerable", r) for r in e["vuln"])
        pk.append(f'<package name="{e["name"]}" auto="yes"{arch}>{body}</package>')
    return (
        '<?xml version="1.0" encoding="UTF-8"?>\n'
        f'<glsa id="{gid}"><title>t</title><synopsis>s</synopsis><product type="ebuild">p</product>'
        f"<affected>{''.join(pk)}</affected></glsa>\n"
    )


_cache = {}


def _pkgobj(name, ver, slot, kws):
    k = (name, ver, slot, tuple(kws))
    o = _cache.get(k)
    if o is None:
        import logging

        logging.getLogger("pkgcore").setLevel(logging.CRITICAL + 10)
        from pkgcore.test.misc import FakePkg

        o = _cache[k] = FakePkg(f"{name}-{ver}", slot=slot, keywords=tuple(kws))
    return o


def write_files(dirpath, files):
    for fn in os.listdir(dirpath):
        os.unlink(os.path.join(dirpath, fn))
    for fn, entries in files.items():
        with open(os.path.join(dirpath, fn), "w") as f:
            f.write(glsa_xml(fn[5:-4], entries))


def observe_iter(dirpath):
    """-> {name: [restriction, ...]} from iter(GlsaDirSet)"""
    from pkgcore.pkgsets import glsa

    out = {}
    for r in glsa.GlsaDirSet(dirpath):
        out.setdefault(str(r.key), []).append(r)
    return out


def judge_entry(entry, restricts, pkgs):
    """compare one entry's yielded restriction(s) with the reference over pkgs ([name, ver, slot, kws]).
    -> list of (pkg, observed, expected) disagreements, and the expected verdict vector"""
    bad = []
    vec = []
    for pkg in pkgs:
        exp = affected(entry, pkg)
        vec.append(exp)
        if not restricts:
            obs = False
        else:
            o = _pkgobj(*pkg)
            obs = any(bool(r.match(o)) for r in restricts)
        if obs != exp:
            bad.append((pkg, obs, exp))
    return bad, vec


def _msg(entry, pkg, obs, exp, how):
    return (
        f"{how}: package {pkg[0]}-{pkg[1]}:{pkg[2]} keywords={pkg[3]} reported {'affected' if obs else 'not affected'}, "
        f"GLSA format says {'affected' if exp else 'not affected'} (vulnerable={entry['vuln']} unaffected={entry['unaff']} arch={entry.get('arch')!r})"
    )


# ----------------------------------------------------------------------------------------------------------------
# enumeration
# ----------------------------------------------------------------------------------------------------------------
def pairs(alpha):
    return list(itertools.combinations(alpha, 2))


def tasks(tier):
    out = []
    nr = len(RANGES)
    for i in range(nr):
        out.append(("P1", tier, i))
    pr = pairs(range(nr))
    chunk = 24
    for lo in range(0, len(pr), chunk):
        out.append(("P2", tier, lo, min(lo + chunk, len(pr))))
    for i in range(nr):
        out.append(("P3", tier, i))
    for i in range(len(SUB)):
        out.append(("P4", tier, i))
    if tier == "thorough":
        for lo in range(0, len(pr), 4):
            out.append(("P5", tier, lo, min(lo + 4, len(pr))))
    return out


def gen(task):
    """yield (part, entry-without-name) in a fixed order"""
    kind = task[0]
    if kind == "P1":
        v = RANGES[task[2]]
        for u in [None] + RANGES:
            for a in ARCHES:
                yield "P1", {"vuln": [list(v)], "unaff": [] if u is None else [list(u)], "arch": a}
    elif kind == "P2":
        pr = pairs(range(len(RANGES)))
        for i, j in pr[task[2] : task[3]]:
            for u in [None] + RANGES:
                yield "P2", {"vuln": [list(RANGES[i]), list(RANGES[j])], "unaff": [] if u is None else [list(u)], "arch": None}
    elif kind == "P3":
        v = RANGES[task[2]]
        for u1, u2 in pairs(RANGES):
            yield "P3", {"vuln": [list(v)], "unaff": [list(u1), list(u2)], "arch": None}
    elif kind == "P5":
        pr = pairs(range(len(RANGES)))
        for i, j in pr[task[2] : task[3]]:
            for u1, u2 in pairs(RANGES):
                yield "P5", {"vuln": [list(RANGES[i]), list(RANGES[j])], "unaff": [list(u1), list(u2)], "arch": None}


def _kinds(entry):
    ks = set()
    for r in entry["vuln"] + entry["unaff"]:
        op, ver, slot = r
        if ver.endswith("*"):
            ks.add("glob")
        elif op.startswith("r"):
            ks.add("rshort" if (op in ("rle", "rge") and "-r" not in ver) else "rop")
        else:
            ks.add("plain")
        if slot:
            ks.add("slot")
    return ks


def _kind(ks):
    return "glob" if "glob" in ks else "rshort" if "rshort" in ks else "rop" if "rop" in ks else "plain"


def classify(part, entry, vec, bad):
    ks = _kinds(entry)
    arch = "" if entry.get("arch") in (None, "*") else ":arch-limited"
    slot = "+slot" if "slot" in ks and part == "P1" else ""
    verdict = "some-affected" if any(vec) else "none-affected"
    return f"{part}:{_kind(ks)}{slot}{arch}:{verdict}:{'BAD' if bad else 'ok'}"


def _case(entry, pkg, obs, how, msg, extra=None):
    c = {"entry": entry, "pkg": pkg, "obs": obs, "how": how, "msg": msg}
    if extra:
        c.update(extra)
    return c


def work(task):
    kind = task[0]
    root = tempfile.mkdtemp(dir="/dev/shm", prefix=f"verif-{PROPERTY}-{os.getpid()}-")
    dirpath = os.path.join(root, "glsa")
    os.mkdir(dirpath)
    evals = 0
    classes = {}
    viol = []
    samples = []
    try:
        if kind == "P4":
            return _work_grouped(task, dirpath)
        full = kind == "P1"
        pk = packages_for(full)
        batch = []

        def flush():
            nonlocal evals
            if not batch:
                return
            entries = []
            for i, (part, e) in enumerate(batch):
                e = dict(e)
                e["name"] = NAMES[i]
                entries.append((part, e))
            write_files(dirpath, {"glsa-200001-01.xml": [e for _p, e in entries]})
            got = observe_iter(dirpath)
            repo_obs = None
            if full:
                repo_obs = _observe_repo(dirpath, [e["name"] for _p, e in entries] + [FOREIGN], pk, grouped=False)
            for part, e in entries:
                pkgs = [[e["name"], v, s, k] for v, s, k in pk] + [[FOREIGN, "1.0", "0", ["amd64"]], [FOREIGN, "1.0-r1", "1", ["amd64"]]]
                rs = got.get(e["name"], [])
                bad, vec = judge_entry(e, rs, pkgs)
                evals += len(pkgs)
                for pkg, obs, exp in bad[:6]:
                    viol.append(_case(e, pkg, obs, "iter", _msg(e, pkg, obs, exp, "GlsaDirSet restriction")))
                rbad = []
                if repo_obs is not None:
                    hit = repo_obs.get(e["name"], set())
                    for pkg in pkgs:
                        exp = affected(e, pkg)
                        obs = (pkg[0], pkg[1], pkg[2], tuple(pkg[3])) in hit
                        evals += 1
                        if obs != exp:
                            rbad.append(pkg)
                            if len(rbad) <= 3 and not bad:
                                viol.append(_case(e, pkg, obs, "repo", _msg(e, pkg, obs, exp, "find_vulnerable_repo_pkgs")))
                k = classify(part, e, vec, bool(bad or rbad))
                classes[k] = classes.get(k, 0) + 1
                if not samples and not bad and 0 < sum(vec) < len(vec) and e["unaff"]:
                    samples.append({"entry": e, "affected": [f"{p[1]}:{p[2]}" for p, x in zip(pkgs, vec) if x]})
            batch.clear()

        for part, e in gen(task):
            batch.append((part, e))
            if len(batch) == BATCH:
                flush()
        flush()
    finally:
        shutil.rmtree(root, ignore_errors=True)
    return {"evals": evals, "classes": classes, "viol": viol, "samples": samples}


def _observe_repo(dirpath, names, pk, grouped):
    """find_vulnerable_repo_pkgs over a FakeRepo holding every package of every name -> {name: set(pkg tuples)}"""
    from pkgcore.pkgsets import glsa
    from pkgcore.test.misc import FakeRepo

    objs = []
    back = {}
    for n in names:
        for v, s, k in pk:
            o = _pkgobj(n, v, s, k)
            objs.append(o)
            back[id(o)] = (n, v, s, tuple(k))
    repo = FakeRepo(pkgs=objs)
    out = {}
    for restrict, matches in glsa.find_vulnerable_repo_pkgs(glsa.GlsaDirSet(dirpath), repo, grouped=grouped):
        out.setdefault(str(restrict.key), set()).update(back[id(m)] for m in matches)
    return out


def _sub_entries():
    ents = []
    for v in SUB:
        for u in [None] + SUB:
            ents.append({"vuln": [list(v)], "unaff": [] if u is None else [list(u)], "arch": None})
    return ents


def _work_grouped(task, dirpath):
    """P4: two advisories (two files) for the same package; grouped iteration must flag the union."""
    ents = _sub_entries()
    per = len(SUB) + 1
    first = ents[task[2] * per : (task[2] + 1) * per]
    pk = packages_for(False)
    evals = 0
    classes = {}
    viol = []
    samples = []
    todo = [(a, b) for a in first for b in ents]
    for lo in range(0, len(todo), BATCH):
        chunk = todo[lo : lo + BATCH]
        f1, f2 = [], []
        for i, (a, b) in enumerate(chunk):
            a, b = dict(a, name=NAMES[i]), dict(b, name=NAMES[i])
            f1.append(a)
            f2.append(b)
        write_files(dirpath, {"glsa-200001-01.xml": f1, "glsa-200001-02.xml": f2})
        obs = _observe_repo(dirpath, [e["name"] for e in f1], pk, grouped=True)
        for a, b in zip(f1, f2):
            pkgs = [[a["name"], v, s, k] for v, s, k in pk]
            bad = False
            vec = []
            for pkg in pkgs:
                exp = affected(a, pkg) or affected(b, pkg)
                vec.append(exp)
                got = (pkg[0], pkg[1], pkg[2], tuple(pkg[3])) in obs.get(a["name"], set())
                evals += 1
                if got != exp:
                    if not bad:
                        viol.append(
                            {
                                "entry": a,
                                "entry2": b,
                                "pkg": pkg,
                                "obs": got,
                                "how": "grouped",
                                "msg": _msg(a, pkg, got, exp, f"grouped find_vulnerable_repo_pkgs (second advisory vulnerable={b['vuln']} unaffected={b['unaff']})"),
                            }
                        )
                    bad = True
            ks = _kinds(a) | _kinds(b)
            k = f"P4-grouped:{_kind(ks)}:{'some-affected' if any(vec) else 'none-affected'}:{'BAD' if bad else 'ok'}"
            classes[k] = classes.get(k, 0) + 1
    return {"evals": evals, "classes": classes, "viol": viol, "samples": samples}


def _replay_obs(case):
    """re-observe exactly one (entry[, entry2], pkg) -> observed bool"""
    root = tempfile.mkdtemp(dir="/dev/shm", prefix=f"verif-{PROPERTY}-{os.getpid()}-")
    try:
        dirpath = os.path.join(root, "glsa")
        os.mkdir(dirpath)
        e = case["entry"]
        pkg = case["pkg"]
        how = case["how"]
        files = {"glsa-200001-01.xml": [e]}
        if how == "grouped":
            files["glsa-200001-02.xml"] = [case["entry2"]]
        write_files(dirpath, files)
        if how == "iter":
            rs = observe_iter(dirpath).get(e["name"], [])
            o = _pkgobj(*pkg)
            return any(bool(r.match(o)) for r in rs)
        pk = [(pkg[1], pkg[2], pkg[3])]
        obs = _observe_repo(dirpath, [pkg[0]], pk, grouped=(how == "grouped"))
        return (pkg[0], pkg[1], pkg[2], tuple(pkg[3])) in obs.get(e["name"], set())
    finally:
        shutil.rmtree(root, ignore_errors=True)


def _expected(case, defects=()):
    exp = affected(case["entry"], case["pkg"], defects)
    if case["how"] == "grouped":
        exp = exp or affected(case["entry2"], case["pkg"], defects)
    return exp


def replay(case):
    obs = _replay_obs(case)
    exp = _expected(case)
    if obs != exp:
        how = {"iter": "GlsaDirSet restriction", "repo": "find_vulnerable_repo_pkgs", "grouped": "grouped find_vulnerable_repo_pkgs"}[case["how"]]
        return [_msg(case["entry"], case["pkg"], obs, exp, how)]
    return []


# --------------------------------------------------------------------------------------------------------------
# narrow classifiers: a counterexample belongs to defect D iff the reference with deviation D switched on reproduces the
# recorded observation and without it does not -- where the only other deviations that may be switched on at the same
# time are those still listed as kind=finding for C45 in known_findings.json (a fixed defect is no excuse any more).
# ----------------------------------------------------------------------------------------------------------------
DEFECTS = ("glob-raw-string-prefix", "unaffected-glob-not-negated", "glob-slot-ignored", "rrange-slot-ignored")
_listed = []


def _listed_findings():
    if not _listed:
        import json

        names = set()
        path = os.path.join(os.path.dirname(os.path.dirname(os.path.dirname(os.path.abspath(__file__)))), "known_findings.json")
        try:
            with open(path) as f:
                for e in json.load(f).get("findings", []):
                    if e.get("property") == PROPERTY and e.get("kind") == "finding":
                        names.add(e.get("predicate"))
        except OSError:
            pass
        _listed.append(names)
    return _listed[0]


def _explains(case, d):
    obs = case["obs"]
    others = [x for x in DEFECTS if x != d and x in _listed_findings()]
    for n in range(len(others) + 1):
        for sub in itertools.combinations(others, n):
            if _expected(case, set(sub) | {d}) == obs and _expected(case, set(sub)) != obs:
                return True
    return False


CLASSIFIERS = {d: (lambda case, d=d: _explains(case, d)) for d in DEFECTS}
