"""C46 distfile cleaning never deletes a distfile that must be kept.

Seam: the real ``pkgcore.scripts.pclean`` option post-processing (``_initialize_opts``, ``_setup_shared_opts``,
``_setup_file_opts``, ``_setup_restrictions``) and ``_dist_validate_args`` applied to a duck-typed namespace (scratch
distdir, a ``SimpleTree`` of configured ``FakePkg``s as the repository, a list of configured packages as the installed
set), then the produced removal thunks are executed by the real ``_remove`` (tty path forced) and the scratch distdir
is listed.  The oracle is a plain-Python evaluation of the statement on the same plain data; it never imports pkgcore.
"""

import itertools
import os
import shutil
import tempfile

PROPERTY = "C46"
LEVEL = "exploration"
ENGINE = "enum"
TECHNIQUE = "bounded exhaustive enumeration of distdir/repository/installed-set/option combinations executed on a scratch distdir"
RULE = (
    "every combination of (repository variant with shared, foreign-named, USE-conditional and (conditionally) fetch-restricted "
    "distfiles; installed set; cleaning targets; exclusion patterns; --installed/--exists/--fetch-restricted; "
    "modified/size filters; assignment of sizes and mtimes to the six distdir files) is executed; a removed file must be "
    "selected by the targets (everything when no target is given, else a distfile of a targeted package or a file whose "
    "name prefix is a targeted package name or the prefix of one of its distfiles) and pass every enabled filter, and "
    "must not be a distfile of an installed package (-I, USE-bound), of any repository package (-E), of a "
    "fetch-restricted repository package (-f) or of a repository package matched by an exclusion pattern.  A class is "
    "the per-file outcome (removed / kept for which reason); distinct_nontrivial counts classes observed."
)
ASSUMPTIONS = [
    "only safety is judged: keeping a removable file is never a violation (counted as class kept-though-removable)",
    "Excl: files whose mtime or size equals the filter threshold (documentation and code disagree on the boundary)",
    "Excl: installed-only packages matched by an exclusion pattern (only repository packages are counted for -x)",
    "distfile names are <prefix>-<version>.tar or stray.bin; 'selected by a target' includes the name-prefix heuristic for "
    "old versions (prefix = package name or prefix of one of the targeted packages' own distfiles)",
    "'needed by a repository package' = every file of its SRC_URI regardless of USE; 'needed by an installed package' = files under its recorded USE",
    "a repository package is fetch-restricted iff 'fetch' is in its RESTRICT evaluated under the USE of the configured package (the raw package behind _raw_pkg keeps the conditional)",
    "--modified is given as an absolute threshold (parse_time reads the clock); --size goes through parse_size('1K')",
    "the installed side (domain.all_installed_repos) is a livefs SimpleTree of configured packages, the repository side a SimpleTree; "
    "pkgsets and --exclude-file are not used; namespace.repo is given explicitly; _remove runs with a tty stdout, pretend off",
]
BOUNDS = {
    "quick": "6 repositories x 5 installed sets x 5 target lists x 3 exclusion lists x 8 flag combinations x 4 filter settings x 2 size/mtime assignments = 28800 runs over a 6-file distdir",
    "thorough": "6 repositories x 5 installed sets x 7 target lists x 5 exclusion lists x 8 flag combinations x 4 filter settings x 4 size/mtime assignments = 134400 runs",
}

# ----------------------------------------------------------------------------------------------------------------
# alphabet (plain data)
# ----------------------------------------------------------------------------------------------------------------
FILES = ["p-0.tar", "p-1.tar", "p-2.tar", "q-1.tar", "q-2.tar", "stray.bin"]
T_MOD = 1_500_000_000
SIZE_ARG = "1K"
SIZE_LIMIT = 1024
ATTRS = [(100, T_MOD - 86400), (100, T_MOD + 86400), (5000, T_MOD - 86400), (5000, T_MOD + 86400)]  # (size, mtime)

# package spec: [cpv, SRC_URI in distfile-name form (flag? ( .. ) allowed), RESTRICT, enabled USE]
REPOS = {
    "plain": [["a/p-1", "p-1.tar", "", []], ["a/p-2", "p-2.tar", "", []], ["a/q-1", "q-1.tar", "", []]],
    "fetch-restricted": [["a/p-1", "p-1.tar", "", []], ["a/p-2", "p-2.tar", "fetch", []], ["a/q-1", "q-1.tar", "fetch", []]],
    "shared-old": [["a/p-1", "p-1.tar", "", []], ["a/p-2", "p-2.tar", "", []], ["a/q-1", "q-1.tar p-0.tar", "", []]],
    "foreign-name": [
        ["a/p-1", "p-1.tar q-1.tar", "", []],
        ["a/p-2", "p-2.tar stray.bin", "", []],
        ["a/q-1", "q-1.tar", "", []],
        ["a/q-2", "q-2.tar", "", []],
    ],
    "use-conditional": [
        ["a/p-1", "p-1.tar f? ( p-0.tar )", "", []],
        ["a/p-2", "p-2.tar", "fetch", []],
        ["a/q-1", "q-1.tar !f? ( stray.bin )", "", []],
    ],
    # RESTRICT=fetch only under a USE flag: enabled for a/p-1 and a/q-2 (fetch-restricted as configured), disabled for
    # a/p-2 and negated-and-enabled for a/q-1 (not fetch-restricted)
    "conditional-fetch-restriction": [
        ["a/p-1", "p-1.tar p-0.tar", "vendor? ( fetch )", ["vendor"]],
        ["a/p-2", "p-2.tar", "vendor? ( fetch )", []],
        ["a/q-1", "q-1.tar", "!vendor? ( fetch )", ["vendor"]],
        ["a/q-2", "q-2.tar stray.bin", "mirror vendor? ( fetch )", ["vendor"]],
    ],
}
INSTALLED = {
    "none": [],
    "current": [["a/p-1", "p-1.tar", "", []]],
    "gone-from-repo": [["a/p-0", "p-0.tar", "", []]],
    "use-bound": [["a/q-1", "q-1.tar f? ( p-0.tar ) !f? ( q-2.tar )", "", ["f"]]],
    "two": [["a/p-2", "p-2.tar", "", []], ["a/q-2", "q-2.tar stray.bin", "", []]],
}
TARGETS_Q = [[], ["a/p"], ["a/q"], ["=a/p-1"], ["a/p", "a/q"]]
TARGETS_T = TARGETS_Q + [["a/z"], ["a/*"]]
EXCLUDES_Q = [[], ["a/q"], ["=a/p-2"]]
EXCLUDES_T = EXCLUDES_Q + [["a/p"], ["a/*"]]
FLAGS = list(itertools.product((False, True), repeat=3))  # (installed, exists, fetch_restricted)
FILTERS = [(False, False), (True, False), (False, True), (True, True)]  # (modified, size)


# ----------------------------------------------------------------------------------------------------------------
# reference (plain Python)
# ----------------------------------------------------------------------------------------------------------------
def ref_distfiles(src, use=None):
    """Tokens of a SRC_URI (or RESTRICT) spec; use=None -> regardless of USE, else under the given enabled flags."""
    toks = src.split()
    out = []
    pos = 0

    def walk(active):
        nonlocal pos
        while pos < len(toks):
            t = toks[pos]
            pos += 1
            if t == ")":
                return
            if t.endswith("?"):
                flag = t[:-1]
                neg = flag.startswith("!")
                flag = flag.lstrip("!")
                assert toks[pos] == "("
                pos += 1
                on = True if use is None else ((flag in use) != neg)
                walk(active and on)
            elif active:
                out.append(t)

    walk(True)
    return out


def _split_cpv(cpv):
    cat, rest = cpv.split("/")
    pn, ver = rest.rsplit("-", 1)
    return cat, pn, ver


def ref_match(pattern, cpv):
    cat, pn, ver = _split_cpv(cpv)
    if pattern.endswith("/*"):
        return pattern[:-2] == cat
    if pattern.startswith("="):
        return pattern[1:] == cpv
    return pattern == f"{cat}/{pn}"


def prefix(fname):
    return fname.split("-")[0] if "-" in fname else None


def ref_sets(case):
    """-> (selected, passing, protected: {file: reason}) over FILES."""
    repo = case["repo"]
    targets, excludes = case["targets"], case["excludes"]
    f_inst, f_exists, f_fetch = case["flags"]
    if not targets:
        selected = set(FILES)
    else:
        T = [p for p in repo if any(ref_match(t, p[0]) for t in targets) and not any(ref_match(x, p[0]) for x in excludes)]
        D = set()
        for p in T:
            D.update(ref_distfiles(p[1]))
        prefixes = {_split_cpv(p[0])[1] for p in T} | {prefix(d) for d in D if prefix(d)}
        selected = {f for f in FILES if f in D or prefix(f) in prefixes}
    attrs = file_attrs(case["variant"])
    passing = set()
    for f in FILES:
        size, mtime = attrs[f]
        if case["filters"][0] and not mtime < T_MOD:
            continue
        if case["filters"][1] and not size < SIZE_LIMIT:
            continue
        passing.add(f)
    protected = {}
    if f_inst:
        for p in case["installed"]:
            for f in ref_distfiles(p[1], set(p[3])):
                protected.setdefault(f, "installed")
    for p in repo:
        files = ref_distfiles(p[1])
        if f_exists:
            for f in files:
                protected.setdefault(f, "exists")
        if f_fetch and "fetch" in ref_distfiles(p[2], set(p[3])):
            for f in files:
                protected.setdefault(f, "fetch-restricted")
        if any(ref_match(x, p[0]) for x in excludes):
            for f in files:
                protected.setdefault(f, "excluded")
    return selected, passing, protected


def file_attrs(variant):
    return {f: ATTRS[(i + variant) % len(ATTRS)] for i, f in enumerate(FILES)}


def judge(case, remaining):
    """-> (violations [(clause, file, message)], per-file outcome classes)."""
    selected, passing, protected = ref_sets(case)
    msgs = []
    classes = {}
    for f in sorted(set(remaining) - set(FILES)):
        msgs.append(("stray-file", f, f"unexpected file {f!r} appeared in the distdir"))
    for f in FILES:
        removed = f not in remaining
        if removed:
            if f not in selected:
                msgs.append(("not-selected", f, f"{f} was removed but is not selected by targets {case['targets']}"))
            elif f not in passing:
                msgs.append(("filter", f, f"{f} was removed although it does not pass the file filters {case['filters']} (size, mtime = {file_attrs(case['variant'])[f]})"))
            elif f in protected:
                msgs.append(("protected", f, f"{f} was removed although it must be kept ({protected[f]})"))
            k = "removed"
        elif f not in selected:
            k = "kept:not-selected"
        elif f not in passing:
            k = "kept:filtered"
        elif f in protected:
            k = "kept:" + protected[f]
        else:
            k = "kept-though-removable"
        classes[k] = classes.get(k, 0) + 1
    return msgs, classes


# ----------------------------------------------------------------------------------------------------------------
# harness
# ----------------------------------------------------------------------------------------------------------------
_cfg_cls = None


def _pkg(spec):
    """A configured-looking package (USE-bound distfiles, raw package behind ``_raw_pkg``) from a plain spec."""
    global _cfg_cls
    from pkgcore.test.misc import FakePkg

    if _cfg_cls is None:

        class Configured(FakePkg):
            __slots__ = ()

            @property
            def distfiles(self):
                return self._raw_pkg.distfiles.evaluate_depset(self.use)

        _cfg_cls = Configured
    cpv, src, restrict, use = spec
    uri = " ".join(t if t in ("(", ")") or t.endswith("?") else "http://dist.invalid/" + t for t in src.split())
    raw = FakePkg(cpv, eapi="8", restrict=restrict, data={"SRC_URI": uri})
    cfg = _cfg_cls(cpv, eapi="8", restrict=restrict, data={"SRC_URI": uri}, use=tuple(use))
    object.__setattr__(cfg, "_raw_pkg", raw)
    object.__setattr__(cfg, "restrict", raw.restrict.evaluate_depset(set(use)))
    return cfg


class _NoRepos:
    def __contains__(self, x):
        return False


class _Sink:
    def write(self, *a, **kw):
        pass


class _TTY:
    def isatty(self):
        return True

    def write(self, *a, **kw):
        pass

    def flush(self):
        pass


def run_case(root, case, cache=None):
    """Execute one combination; returns the sorted list of files left in the scratch distdir."""
    import types

    from pkgcore.repository.util import SimpleTree
    from pkgcore.scripts import pclean

    distdir = os.path.join(root, "distdir")
    os.makedirs(distdir, exist_ok=True)
    for f in os.listdir(distdir):
        if f not in FILES:
            os.unlink(os.path.join(distdir, f))
    attrs = file_attrs(case["variant"])
    for f in FILES:
        size, mtime = attrs[f]
        path = os.path.join(distdir, f)
        with open(path, "wb") as fh:
            fh.write(b"x" * size)
        os.utime(path, (mtime, mtime))

    key = repr((case["repo"], case["installed"]))
    built = cache.get(key) if cache is not None else None
    if built is None:
        pkgs = {}
        cpvs = {}
        for spec in case["repo"]:
            p = _pkg(spec)
            pkgs[(p.category, p.package, p.fullver)] = p
            cpvs.setdefault(p.category, {}).setdefault(p.package, []).append(p.fullver)
        tree = SimpleTree(cpvs, pkg_klass=lambda c, p, v: pkgs[(c, p, v)], repo_id="c46-fake")
        # the installed side is a repository object too (domain.all_installed_repos is the combined vdb tree), so
        # iteration, itermatch() and match() all work on it
        ipkgs = {}
        icpvs = {}
        for spec in case["installed"]:
            p = _pkg(spec)
            ipkgs[(p.category, p.package, p.fullver)] = p
            icpvs.setdefault(p.category, {}).setdefault(p.package, []).append(p.fullver)
        installed = SimpleTree(icpvs, pkg_klass=lambda c, p, v: ipkgs[(c, p, v)], livefs=True, repo_id="c46-vdb")
        built = (tree, installed)
        if cache is not None:
            cache[key] = built
    tree, installed = built

    domain = types.SimpleNamespace(distdir=distdir, all_installed_repos=installed, all_source_repos_raw=_NoRepos(), source_repos=())
    ns = types.SimpleNamespace(
        domain=domain,
        repo=tree,
        targets=list(case["targets"]),
        excludes=list(case["excludes"]) or None,
        exclude_file=None,
        pkgsets=None,
        modified=float(T_MOD) if case["filters"][0] else None,
        size=pclean.parse_size(SIZE_ARG) if case["filters"][1] else None,
        exclude_installed=case["flags"][0],
        exclude_exists=case["flags"][1],
        exclude_fetch_restricted=case["flags"][2],
        pretend=False,
        verbosity=0,
        prog="pclean dist",
    )
    pclean._initialize_opts(ns)
    pclean._setup_shared_opts(ns)
    pclean._setup_file_opts(ns)
    pclean._setup_restrictions(ns)
    pclean._dist_validate_args(None, ns)
    real_sys = pclean.sys
    pclean.sys = types.SimpleNamespace(stdout=_TTY())
    try:
        pclean._remove(ns, _Sink(), _Sink())
    finally:
        pclean.sys = real_sys
    return sorted(os.listdir(distdir))


def check_case(root, case, cache=None):
    remaining = run_case(root, case, cache)
    return judge(case, remaining)


def _mkroot():
    return tempfile.mkdtemp(dir="/dev/shm", prefix=f"verif-{PROPERTY}-{os.getpid()}-")


# ----------------------------------------------------------------------------------------------------------------
# runner interface
# ----------------------------------------------------------------------------------------------------------------
def tasks(tier):
    targets = TARGETS_Q if tier == "quick" else TARGETS_T
    out = []
    for ti in range(len(targets)):
        for r in REPOS:
            for i in INSTALLED:
                out.append((tier, r, i, ti))
    return out


def work(task):
    tier, rname, iname, ti = task
    targets = (TARGETS_Q if tier == "quick" else TARGETS_T)[ti]
    excludes = EXCLUDES_Q if tier == "quick" else EXCLUDES_T
    variants = range(2) if tier == "quick" else range(4)
    root = _mkroot()
    evals = 0
    classes = {}
    viol = []
    cache = {}
    try:
        for ex in excludes:
            for flags in FLAGS:
                for filt in FILTERS:
                    for v in variants:
                        case = {
                            "repo": REPOS[rname],
                            "installed": INSTALLED[iname],
                            "targets": targets,
                            "excludes": ex,
                            "flags": list(flags),
                            "filters": list(filt),
                            "variant": v,
                        }
                        msgs, cls = check_case(root, case, cache)
                        evals += 1
                        for k, n in cls.items():
                            classes[k] = classes.get(k, 0) + n
                        if msgs:
                            clause, f, m = msgs[0]
                            c = dict(case)
                            c.update({"clause": clause, "file": f, "repo_name": rname, "msg": _describe(case) + ": " + m})
                            viol.append(c)
    finally:
        shutil.rmtree(root, ignore_errors=True)
    # simplest first: fewest options set
    viol.sort(key=lambda c: (sum(c["flags"]) + sum(c["filters"]) + len(c["excludes"]) + len(c["targets"]), c["variant"]))
    return {
        "evals": evals,
        "classes": classes,
        "viol": viol,
        "samples": [{"repo": rname, "installed": iname, "targets": targets, "runs": evals}],
        "counters": {"files_judged": evals * len(FILES)},
    }


def _describe(case):
    fl = [n for n, on in zip(("--installed", "--exists", "--fetch-restricted"), case["flags"]) if on]
    fi = [n for n, on in zip(("--modified", "--size"), case["filters"]) if on]
    return f"repo={case['repo']} installed={case['installed']} targets={case['targets']} excludes={case['excludes']} options={fl + fi} variant={case['variant']}"


def replay(case):
    root = _mkroot()
    try:
        msgs, _ = check_case(root, case)
        return [f"[{c}] {m}" for c, f, m in msgs]
    finally:
        shutil.rmtree(root, ignore_errors=True)


def _exists_limited_to_targets(case):
    """--exists together with targets/exclusions: the removed file is a distfile of a repository package that the
    cleaning restriction does not select (exists_dist is only filled from the targeted packages)."""
    if case.get("clause") != "protected" or not case["flags"][1]:
        return False
    if not (case["targets"] or case["excludes"]):
        return False
    _, _, protected = ref_sets(case)
    if protected.get(case["file"]) != "exists":
        return False
    # would be fine if --exists were not given
    c2 = dict(case)
    c2["flags"] = [case["flags"][0], False, case["flags"][2]]
    return case["file"] not in ref_sets(c2)[2]


CLASSIFIERS = {"exists-only-protects-targeted-packages": _exists_limited_to_targets}
