"""C47 tarball sync replaces a repository atomically and recovers from interruption.

``sync.tar.tar_syncer._sync`` runs for real on a tmpfs scratch area.  Harness seams (no change to pkgcore):
  * ``urllib.request.urlopen`` -> scripted response (good .tar.bz2/.gz/.xz, truncated, bit-flipped, not a tarball,
    HTTP 404, HTTP 304, unchanged ETag);
  * ``tempfile.tempdir`` -> a directory inside the fault scope, so the download's file operations are events too;
  * ``pkgcore.sync.tar.atexit`` -> a recorder: the registered clean-ups run when the *process exits normally*
    (complete run, or an error the syncer reported) and do **not** run after a simulated crash (process death);
  * ``pkgcore.sync.tar.subprocess`` -> a shim that performs the ``tar --extract … --strip-components=1
    --no-same-owner -C dir`` command member by member through audited Python calls (mkdir/open/chmod/utime/symlink),
    so that every step of the unpack is a crash point.  One evaluation per scenario runs the real ``tar`` binary
    instead and requires the same resulting tree (the shim is validated against the command it replaces).

For each scenario the fault-free run is recorded; then crash at every event, torn write at every open-for-write,
(thorough) one EIO at every event and, for the two main scenarios, every pair of EIOs.  After each execution:
  R1  the repository path holds the complete old tree or the complete new tree (ignoring the syncer's own
      .etag/.modified book-keeping files); with a failing response it is the old tree, byte for byte;
  R2  variant "failing follow-up": a next sync whose download/unpack fails (404, truncated, bit-flipped) leaves a
      complete old or new tree at the path (unchanged if it found a complete one);
  R3  a (final) follow-up sync by a fresh syncer object with a good response completes and the path holds the new tree.
"""

import hashlib
import io
import gc
import os
import shutil
import sys
import stat
import tempfile

PROPERTY = "C47"
LEVEL = "fault_enumeration"
ENGINE = "faults"
TECHNIQUE = "audit-hook crash/torn-write/EIO enumeration over every file operation of a sync (unpack included, member by member); tree-snapshot + follow-up-sync oracle"
RULE = (
    "scenarios = previous tree {present, absent} x response {good bz2/gz/xz, truncated, bit-flipped, not a tarball, "
    "HTTP 404, HTTP 304, unchanged ETag}; every mutating event of the fault-free run (download temp file, staging "
    "directories, each member of the unpack, the two renames, .etag/.modified) is a crash point (plus a crash right after every rename/symlink), every open-for-write a "
    "torn write, thorough adds single EIOs everywhere and EIO pairs for the two good-bz2 scenarios. One evaluation = "
    "one faulted sync from a fresh copy of the pre-state + tree snapshot + follow-up variant (good; after an interruption "
    "also failing-then-good: 404 everywhere, truncated and bit-flipped too for the two good-bz2 scenarios) + snapshots. A class is "
    "(response class, fault kind, kind of audited call at a crash, tree state after the fault, outcome of the follow-up sync)."
)
ASSUMPTIONS = [
    "a crash is process death with every completed syscall durable (no power-loss reordering); atexit handlers do not "
    "run after a crash and do run after a completed or failed-but-alive sync",
    "the unpack is performed by a Python shim that issues the effects of the tar command member by member through "
    "audited calls; its result is compared with the real tar binary once per scenario; crash points *inside* the real "
    "tar process are represented by the shim's per-member steps (mkdir, create+write, chmod, utime, symlink)",
    "Excl: with no previous tree, an *empty* repository directory (created by the download step) counts as 'previous "
    "state' like an absent one",
    "Excl: two syncs in one process without an interruption in between (the second is refused while the first's staging "
    "directories await atexit; the tree stays intact, which the statement allows)",
    "a follow-up sync that itself receives a failing response (404 / truncated / bit-flipped) is part of the sweep after "
    "every interruption: it must leave the tree it found (or restore the parked one), and a final good sync must complete",
    "Excl (thorough EIO pairs): EIO on the second rename *and* on the roll-back rename its handler performs; the old "
    "tree then sits in .<name>.old and the atexit clean-up deletes it -- two consecutive I/O failures, one inside the "
    "recovery action, which the statement does not speak about (reported to the coordinator as a possible finding)",
    ".etag/.modified inside the repository directory are the syncer's book-keeping and are ignored when a tree is "
    "compared with the old/new reference, except that a failed download must leave them untouched as well",
    "the HTTP server is a scripted urlopen (DESIGN 2.5), not a socket",
]
BOUNDS = {
    "quick": "12 scenarios; every mutating event (about 70 for a good sync) as crash point, every open-for-write as torn "
    "write; follow-up sync after each; real-tar agreement run per scenario",
    "thorough": "same + single injected EIO at every event of every scenario + all EIO pairs k1<k2 for present/good-bz2 "
    "and absent/good-bz2",
}

# ---------------------------------------------------------------------------------------------
# fixtures

OLD_TREE = [
    # path, kind, data/target, mode
    ("profiles", "d", None, 0o755),
    ("profiles/repo_name", "f", b"oldrepo\n", 0o644),
    ("metadata", "d", None, 0o755),
    ("metadata/layout.conf", "f", b"masters =\n", 0o644),
    ("cat", "d", None, 0o755),
    ("cat/pkg", "d", None, 0o755),
    ("cat/pkg/pkg-1.ebuild", "f", b"# old ebuild\nEAPI=7\n" * 40, 0o644),
    ("cat/pkg/Manifest", "f", b"DIST old 1 SHA512 00\n", 0o644),
    ("current", "l", "cat/pkg/pkg-1.ebuild", 0o777),
    (".etag", "f", b'"v1"', 0o644),
    (".modified", "f", b"Mon, 01 Jan 2024 00:00:00 GMT", 0o644),
]
NEW_TREE = [
    ("profiles", "d", None, 0o755),
    ("profiles/repo_name", "f", b"newrepo\n", 0o644),
    ("metadata", "d", None, 0o755),
    ("metadata/layout.conf", "f", b"masters =\nthin-manifests = true\n", 0o644),
    ("cat", "d", None, 0o755),
    ("cat/pkg", "d", None, 0o755),
    ("cat/pkg/pkg-2.ebuild", "f", b"# new ebuild\nEAPI=8\n" + b"".join(hashlib.sha256(b"%d" % i).hexdigest().encode() + b"\n" for i in range(300)), 0o644),
    ("cat/pkg/Manifest", "f", b"DIST new 2 SHA512 11\n", 0o644),
    ("cat/extra", "d", None, 0o750),
    ("cat/extra/extra-1.ebuild", "f", b"# extra\n", 0o644),
    ("scripts", "d", None, 0o755),
    ("scripts/run.sh", "f", b"#!/bin/sh\necho hi\n", 0o755),
    ("current", "l", "cat/pkg/pkg-2.ebuild", 0o777),
    ("eclass", "d", None, 0o755),
    ("eclass/empty.eclass", "f", b"", 0o644),
]
NEW_MTIME = 1500000000
OLD_MTIME = 1400000000
BOOKKEEPING = (".etag", ".modified")

RESPONSES = ["good-bz2", "good-gz", "good-xz", "truncated", "bitflip", "not-a-tarball", "http-404", "http-304", "same-etag"]
SCENARIOS = [
    ("present", "good-bz2"),
    ("absent", "good-bz2"),
    ("present", "good-gz"),
    ("present", "good-xz"),
    ("present", "truncated"),
    ("present", "bitflip"),
    ("present", "not-a-tarball"),
    ("present", "http-404"),
    ("present", "http-304"),
    ("present", "same-etag"),
    ("absent", "truncated"),
    ("absent", "http-404"),
]
PAIR_SCENARIOS = [("present", "good-bz2"), ("absent", "good-bz2")]
SHARDS = 6
PAIR_SHARDS = 40


def tasks(tier):
    out = []
    for prev, resp in SCENARIOS:
        for i in range(SHARDS):
            out.append((tier, "single", prev, resp, i, SHARDS))
    if tier == "thorough":
        for prev, resp in PAIR_SCENARIOS:
            for i in range(PAIR_SHARDS):
                out.append((tier, "pairs", prev, resp, i, PAIR_SHARDS))
    return out


def _make_tree(root, spec, mtime):
    os.makedirs(root)
    for path, kind, data, mode in spec:
        full = os.path.join(root, path)
        if kind == "d":
            os.mkdir(full)
            os.chmod(full, mode)
        elif kind == "f":
            with open(full, "wb") as f:
                f.write(data)
            os.chmod(full, mode)
        else:
            os.symlink(data, full)
    for path, kind, _data, _mode in spec:
        if kind != "d":
            os.utime(os.path.join(root, path), (mtime, mtime), follow_symlinks=False)


def _tarball(ext):
    import tarfile

    buf = io.BytesIO()
    with tarfile.open(fileobj=buf, mode="w:" + ext, format=tarfile.GNU_FORMAT) as t:
        top = tarfile.TarInfo("repo-20260101")
        top.type, top.mode, top.mtime = tarfile.DIRTYPE, 0o755, NEW_MTIME
        t.addfile(top)
        for path, kind, data, mode in NEW_TREE:
            ti = tarfile.TarInfo("repo-20260101/" + path)
            ti.mode, ti.mtime, ti.uid, ti.gid, ti.uname, ti.gname = mode, NEW_MTIME, 1234, 1234, "someone", "somegroup"
            if kind == "d":
                ti.type = tarfile.DIRTYPE
                t.addfile(ti)
            elif kind == "f":
                ti.size = len(data)
                t.addfile(ti, io.BytesIO(data))
            else:
                ti.type, ti.linkname = tarfile.SYMTYPE, data
                t.addfile(ti)
    return buf.getvalue()


def _response(resp):
    """(uri extension, body or None, headers, http error code or None)"""
    new_headers = {"ETag": '"v2"', "Last-Modified": "Thu, 01 Jan 2026 00:00:00 GMT"}
    if resp.startswith("good-"):
        ext = resp.split("-")[1]
        return ext, _tarball(ext), new_headers, None
    if resp == "truncated":
        # gzip, because a deflate stream unpacks up to the cut (the unpack fails half way through the members)
        body = _tarball("gz")
        return "gz", body[: len(body) * 6 // 10], new_headers, None
    if resp == "bitflip":
        body = bytearray(_tarball("bz2"))
        for i in range(len(body) // 2, len(body) // 2 + 8):
            body[i] ^= 0xFF
        return "bz2", bytes(body), new_headers, None
    if resp == "not-a-tarball":
        return "bz2", b"<html><body>502 Bad Gateway</body></html>\n" * 20, new_headers, None
    if resp == "http-404":
        return "bz2", None, {}, 404
    if resp == "http-304":
        return "bz2", None, {}, 304
    if resp == "same-etag":
        return "bz2", _tarball("bz2"), {"ETag": '"v1"'}, None
    raise ValueError(resp)


class _Resp:
    def __init__(self, body, headers):
        self._f = io.BytesIO(body)
        self._h = dict(headers)
        self._h.setdefault("content-length", str(len(body)))

    def getheader(self, name, default=None):
        for k, v in self._h.items():
            if k.lower() == name.lower():
                return v
        return default

    def read(self, n=-1):
        return self._f.read(n)


def snapshot(root):
    """None if the path does not exist, else path -> tuple (DESIGN A9; directory mtimes ignored)."""
    try:
        st = os.lstat(root)
    except FileNotFoundError:
        return None
    if not stat.S_ISDIR(st.st_mode):
        return {"": ("not-a-directory",)}
    snap = {}
    stack = [""]
    while stack:
        rel = stack.pop()
        for name in sorted(os.listdir(os.path.join(root, rel))):
            p = os.path.join(rel, name)
            full = os.path.join(root, p)
            st = os.lstat(full)
            m = st.st_mode
            if stat.S_ISDIR(m):
                snap[p] = ("d", stat.S_IMODE(m))
                stack.append(p)
            elif stat.S_ISREG(m):
                with open(full, "rb") as f:
                    data = f.read()
                snap[p] = ("f", stat.S_IMODE(m), len(data), hashlib.sha1(data).hexdigest(), int(st.st_mtime))
            elif stat.S_ISLNK(m):
                snap[p] = ("l", os.readlink(full))
            else:
                snap[p] = ("other", oct(m))
    return snap


def _spec_snapshot(spec, mtime):
    out = {}
    for path, kind, data, mode in spec:
        if kind == "d":
            out[path] = ("d", mode)
        elif kind == "f":
            out[path] = ("f", mode, len(data), hashlib.sha1(data).hexdigest(), mtime)
        else:
            out[path] = ("l", data)
    return out


def _strip(snap):
    if snap is None:
        return None
    return {k: v for k, v in snap.items() if k not in BOOKKEEPING}


# ---------------------------------------------------------------------------------------------
# the tar shim


class _TarShim:
    """Stands in for the ``subprocess`` module inside pkgcore.sync.tar."""

    def __init__(self, real_tar=False):
        import subprocess

        self._sp = subprocess
        self.PIPE = subprocess.PIPE
        self.CalledProcessError = subprocess.CalledProcessError
        self.real_tar = real_tar
        self.calls = 0

    def run(self, cmd, stderr=None, check=False, encoding=None, **kw):
        self.calls += 1
        if self.real_tar:
            return self._sp.run(cmd, stderr=stderr, check=check, encoding=encoding, **kw)
        if kw or stderr is not self.PIPE or not check or encoding != "utf8":
            raise RuntimeError(f"tar shim: unexpected subprocess.run arguments {kw!r}")
        return self._extract(list(cmd))

    def _extract(self, cmd):
        import tarfile

        if cmd[:2] != ["tar", "--extract"]:
            raise RuntimeError(f"tar shim: unexpected command {cmd!r}")
        comp = src = dest = None
        strip = 0
        i = 2
        seen = set()
        while i < len(cmd):
            a = cmd[i]
            if a in ("--gzip", "--bzip2", "--xz"):
                comp = {"--gzip": "gz", "--bzip2": "bz2", "--xz": "xz"}[a]
            elif a == "-f":
                i += 1
                src = cmd[i]
            elif a == "-C":
                i += 1
                dest = cmd[i]
            elif a.startswith("--strip-components="):
                strip = int(a.split("=")[1])
            elif a == "--no-same-owner":
                seen.add(a)
            else:
                raise RuntimeError(f"tar shim: option {a!r} not modelled")
            i += 1
        if None in (comp, src, dest):
            raise RuntimeError(f"tar shim: incomplete command {cmd!r}")
        dirs = []
        try:
            with tarfile.open(src, "r:" + comp) as t:
                for m in t:
                    parts = [p for p in m.name.split("/") if p and p != "."][strip:]
                    if not parts:
                        continue
                    if ".." in parts:
                        raise RuntimeError("tar shim: member escapes")
                    target = os.path.join(dest, *parts)
                    parent = os.path.dirname(target)
                    if not os.path.isdir(parent):
                        os.makedirs(parent)
                    if not m.isdir() and os.path.lexists(target):
                        # GNU tar removes an existing non-directory before extracting over it
                        os.unlink(target)
                    if m.isdir():
                        if not os.path.isdir(target):
                            os.mkdir(target, 0o700)
                        dirs.append((target, m.mode, m.mtime))
                    elif m.isreg():
                        src_f = t.extractfile(m)
                        with open(target, "wb") as f:
                            while True:
                                buf = src_f.read(16384)
                                if not buf:
                                    break
                                f.write(buf)
                        os.chmod(target, m.mode & 0o7777)
                        os.utime(target, (m.mtime, m.mtime))
                    elif m.issym():
                        os.symlink(m.linkname, target)
                    elif m.islnk():
                        lparts = [p for p in m.linkname.split("/") if p and p != "."][strip:]
                        os.link(os.path.join(dest, *lparts), target)
                    else:
                        raise RuntimeError(f"tar shim: member type {m.type!r} not modelled")
                # like GNU tar, directory modes and times are applied last
                for target, mode, mtime in reversed(dirs):
                    os.chmod(target, mode & 0o7777)
                    os.utime(target, (mtime, mtime))
        except (tarfile.TarError, EOFError, OSError, ValueError) as e:
            if isinstance(e, OSError) and "(injected)" in str(e):
                # an injected EIO inside the child: tar reports it and exits non-zero
                raise self.CalledProcessError(2, cmd, stderr=f"tar: {e}\ntar: Exiting with failure status due to previous errors\n")
            if isinstance(e, OSError) and not isinstance(e, (tarfile.TarError,)) and e.errno is not None:
                raise
            raise self.CalledProcessError(2, cmd, stderr=f"tar: {type(e).__name__}: {e}\ntar: Error is not recoverable: exiting now\n")
        return self._sp.CompletedProcess(cmd, 0, stderr="")


class _AtExit:
    def __init__(self):
        self.callbacks = []

    def register(self, fn, *a, **kw):
        self.callbacks.append((fn, a, kw))
        return fn

    def run_all(self):
        errs = []
        while self.callbacks:
            fn, a, kw = self.callbacks.pop()
            try:
                fn(*a, **kw)
            except Exception as e:  # atexit prints and continues
                errs.append(repr(e))
        return errs


# ---------------------------------------------------------------------------------------------


def _fd_injector(scope):
    from verif.engines import faults

    class FdInjector(faults.Injector):
        """shutil.rmtree removes entries relative to a directory fd; resolve those so they are in scope."""

        def _event(self, name, args, openpath=None, force=False):
            if (
                name in ("os.remove", "os.rmdir", "os.mkdir")
                and len(args) >= 2
                and isinstance(args[0], (str, bytes))
                and type(args[1]) is int
                and args[1] >= 0
            ):
                p = faults._s(args[0])
                if not p.startswith("/"):
                    try:
                        args = (os.path.join(os.readlink(f"/proc/self/fd/{args[1]}"), p), -1)
                    except OSError:
                        pass
            return super()._event(name, args, openpath=openpath, force=force)

    return FdInjector(scope)


class Fixture:
    def __init__(self, prev, resp):
        self.prev, self.resp = prev, resp
        self.scratch = tempfile.mkdtemp(dir="/dev/shm", prefix=f"verif-C47-{os.getpid()}-")
        self.work_root = os.path.join(self.scratch, "w")  # the fault scope
        self.repos = os.path.join(self.work_root, "repos")
        self.basedir = os.path.join(self.repos, "r")
        self.tmp = os.path.join(self.work_root, "tmp")
        self.tmpl = os.path.join(self.scratch, "old-template")
        _make_tree(self.tmpl, OLD_TREE, OLD_MTIME)
        self.ext, self.body, self.headers, self.http_error = _response(resp)
        self.good_ext, self.good_body, self.good_headers, _ = _response("good-bz2")
        self.old_full = snapshot(self.tmpl) if prev == "present" else None
        self.old = _strip(self.old_full)
        self.new = _spec_snapshot(NEW_TREE, NEW_MTIME)
        self.expect_new = resp.startswith("good-")
        self.inj = _fd_injector(self.work_root)
        self.reset()
        st, val, self.events = self.inj.record(self._sync_callable(self.ext, self.body, self.headers, self.http_error))
        self.ff_status, self.ff_value = st, val
        self._finish_process(crashed=False)
        self._sanity()

    def close(self):
        shutil.rmtree(self.scratch, ignore_errors=True)

    def reset(self):
        shutil.rmtree(self.work_root, ignore_errors=True)
        os.makedirs(self.repos)
        os.makedirs(self.tmp)
        if self.prev == "present":
            shutil.copytree(self.tmpl, self.basedir, symlinks=True)
        self.atexit = _AtExit()

    def _sync_callable(self, ext, body, headers, http_error, real_tar=False):
        """One process' worth of syncing: a fresh syncer object, seams installed around the call."""
        import contextlib
        import urllib.error
        import urllib.request

        from pkgcore.sync import tar as tar_mod

        uri = f"tar+https://example.invalid/snap/repo-latest.tar.{ext}"
        basedir, tmpdir, atexit_rec = self.basedir, self.tmp, self.atexit
        shim = _TarShim(real_tar=real_tar)
        self.shim = shim

        def fake_urlopen(req, context=None, **kw):
            if http_error is not None:
                raise urllib.error.HTTPError(req.full_url, http_error, "scripted", {}, None)
            return _Resp(body, headers)

        def run():
            saved = (urllib.request.urlopen, tar_mod.subprocess, tar_mod.atexit, tempfile.tempdir)
            urllib.request.urlopen = fake_urlopen
            tar_mod.subprocess = shim
            tar_mod.atexit = atexit_rec
            tempfile.tempdir = tmpdir
            try:
                with contextlib.redirect_stdout(io.StringIO()):
                    syncer = tar_mod.tar_syncer(basedir, uri)
                    return syncer.sync()
            finally:
                urllib.request.urlopen, tar_mod.subprocess, tar_mod.atexit, tempfile.tempdir = saved

        return run

    def _finish_process(self, crashed):
        """Normal interpreter exit runs the registered clean-ups; a dead process runs nothing."""
        if crashed:
            self.atexit.callbacks = []
            return
        self.atexit.run_all()

    def _sanity(self):
        """Engine-level expectation only: a good response must have exercised the unpack. Whether the resulting tree is
        right is judged by the oracle on the never-firing anchor plan, so a wrong tree is a VIOLATION, not an engine error."""
        if self.expect_new and self.ff_status == "ok" and self.shim.calls != 1:
            raise RuntimeError(f"fault-free {self.prev}/{self.resp}: tar invoked {self.shim.calls} times")

    # ---- oracle -------------------------------------------------------------------------
    def tree_state(self):
        full = snapshot(self.basedir)
        now = _strip(full)
        if now == self.new:
            return "new", full
        if self.prev == "present":
            if now == self.old:
                return "old", full
        else:
            if full is None:
                return "old-absent", full
            if full == {}:
                return "old-empty-dir", full
        if full is None:
            return "absent", full
        return "partial", full

    def judge_tree(self, state, full, fired):
        msgs = []
        if state in ("absent", "partial"):
            ref = self.new if self.expect_new else (self.old or {})
            what = "does not exist" if state == "absent" else f"holds neither tree ({_diff(_strip(full), ref)})"
            msgs.append(f"repository path {what}")
        elif not self.expect_new and state == "new":
            msgs.append("new tree installed from a failing response")
        elif not self.expect_new and self.prev == "present" and full != self.old_full:
            msgs.append(f"failed/unchanged download modified the previous tree: {_diff(full, self.old_full)}")
        if not fired and self.expect_new and state != "new":
            msgs.append(f"uninterrupted sync of a good tarball left state {state}")
        return msgs

    def execute(self, plan, real_tar=False, followup="good"):
        """_execute with late clean-up noise (AtomicWriteFile.__del__ hitting an injected or vanished path) kept off stderr."""
        old = sys.unraisablehook
        sys.unraisablehook = lambda u: None if isinstance(u.exc_value, OSError) else old(u)
        try:
            try:
                return self._execute(plan, real_tar=real_tar, followup=followup)
            finally:
                gc.collect()
        finally:
            sys.unraisablehook = old

    def _execute(self, plan, real_tar=False, followup="good"):
        """Returns (status, state after fault, follow-up outcome, messages).  self.problems lists which requirement each
        message belongs to ("instant": tree right after the fault; "failing-follow-up"; "follow-up")."""
        self.reset()
        fn = self._sync_callable(self.ext, self.body, self.headers, self.http_error, real_tar=real_tar)
        status, _val = self.inj.run(fn, plan)
        del _val, fn  # an exception object keeps the syncer's frames (and their open temp files) alive
        gc.collect()
        self.first_tar_calls = self.shim.calls
        crashed = self.inj.crashed_at is not None
        fired = crashed or self.inj.errored_at is not None
        self._finish_process(crashed)
        state, full = self.tree_state()
        msgs = self.judge_tree(state, full, fired)
        self.problems = ["instant"] * len(msgs)
        if followup != "good":
            # first a follow-up sync whose download or unpack fails: it must leave a complete tree where it found one,
            # and must not finish off a tree that the interruption left parked
            ext, body, headers, http_error = _response(followup)
            self.atexit = _AtExit()
            stf, valf, _ev = self.inj.record(self._sync_callable(ext, body, headers, http_error))
            del valf
            gc.collect()
            self._finish_process(crashed=False)
            statef, fullf = self.tree_state()
            complete = lambda st: st == "new" or st.startswith("old")  # noqa: E731
            problem = None
            if not complete(statef):
                what = "does not exist" if statef == "absent" else f"holds neither tree ({_diff(_strip(fullf), self.old or {})})"
                problem = f"after the interruption and a follow-up sync with a failing response ({followup}) the repository path {what}"
            elif complete(state) and (full or {}) != (fullf or {}):
                problem = f"follow-up sync with a failing response ({followup}) changed the tree it found ({state} -> {statef}): {_diff(fullf or {}, full or {})}"
            if problem:
                msgs.append(problem)
                self.problems.append("failing-follow-up")
        # (final) follow-up sync: a new process, a new syncer object, a good response, no faults
        self.atexit = _AtExit()
        fn2 = self._sync_callable(self.good_ext, self.good_body, self.good_headers, None)
        st2, val2, _ev = self.inj.record(fn2)
        self._finish_process(crashed=False)
        state2, full2 = self.tree_state()
        if st2 != "ok" or val2 is not True:
            follow = "follow-up-failed"
            msgs.append(f"follow-up sync did not complete: {type(val2).__name__}: {val2}".replace(self.work_root, "<scratch>"))
        elif state2 != "new":
            follow = "follow-up-wrong-tree"
            msgs.append(f"follow-up sync completed but the repository path is {state2}: {_diff(_strip(full2), self.new)}")
        else:
            follow = "follow-up-ok"
        leftovers = sorted(n for n in os.listdir(self.repos) if n != "r")
        if follow == "follow-up-ok" and leftovers:
            msgs.append(f"staging directories left after a completed follow-up sync and normal exit: {leftovers}")
        self.problems += ["follow-up"] * (len(msgs) - len(self.problems))
        return status, state, follow, msgs


def _diff(a, b):
    if a is None or b is None:
        return f"{'absent' if a is None else 'present'} vs {'absent' if b is None else 'present'}"
    out = []
    for k in sorted(set(a) | set(b)):
        if a.get(k) != b.get(k):
            out.append(f"{k}: {'missing' if k not in a else 'extra' if k not in b else 'differs'}")
    return ", ".join(out[:6]) + (f" (+{len(out) - 6})" if len(out) > 6 else "")


def _at(events, k):
    import re

    if k >= len(events):
        return "end"
    name, args = events[k]
    p = str(args[0]) if args else ""
    p = re.sub(r"/tmp/(\.update\.)?tmp[^/ ]*", r"/tmp/\1TMPFILE", p)
    return f"{name} {p}"


_CALL_CLASS = {
    "open": "open", "os.rename": "rename", "os.remove": "unlink", "os.rmdir": "rmdir", "shutil.rmtree": "rmtree",
    "os.mkdir": "mkdir", "os.chmod": "attr", "os.chown": "attr", "os.utime": "attr", "os.symlink": "mkdir", "end": "end",
}


def _plans(fx, tier, mode):
    import errno

    from verif.engines import faults

    ev = fx.events
    if mode == "single":
        plans = faults.plans_for(ev, crash=True, torn=True, errors=(tier == "thorough"), errnos=(errno.EIO,), after=True)
        plans.append(("real-tar",))
        return plans
    n = len(ev)
    # Excl (see ASSUMPTIONS): the pair whose second EIO lands on the roll-back rename that the handler of the first
    # (a failed second rename) performs -- two consecutive I/O failures, one of them in the recovery action itself.
    swap = [k for k in range(n) if _at(ev, k).startswith("os.rename /repos/.r.update")]
    return [("errors", [a, b], errno.EIO) for a in range(n) for b in range(a + 1, n) if not (a in swap and b == a + 1)]


FAILING = ("http-404", "truncated", "bitflip")


def followups(fx, plan, tier):
    """good always; after an interruption (thorough: also after a reported EIO) additionally a failing follow-up."""
    kinds = ("crash", "crash_after", "torn") + (("error",) if tier == "thorough" else ())
    if plan[0] not in kinds:
        return ["good"]
    if (fx.prev, fx.resp) in PAIR_SCENARIOS:
        return ["good", *FAILING]
    return ["good", "http-404"]


def run_plan(fx, plan, followup="good"):
    if plan[0] == "real-tar":
        status, state, follow, msgs = fx.execute(None, real_tar=True)
        if fx.first_tar_calls == 0 and fx.expect_new and status == "ok":
            raise RuntimeError("real tar was not invoked")
        return status, state, follow, msgs
    if plan[0] == "errors":
        plan = ("errors", frozenset(plan[1]), plan[2])
    return fx.execute(tuple(plan), followup=followup)


def work(task):
    tier, mode, prev, resp, shard, nshards = task
    fx = Fixture(prev, resp)
    evals = 0
    classes = {}
    viol = []
    samples = []
    post = set()
    try:
        plans = _plans(fx, tier, mode)
        todo = [
            (plan, followup)
            for i, plan in enumerate(plans)
            if i % nshards == shard
            for followup in (followups(fx, plan, tier) if mode == "single" else ["good"])
        ]
        for plan, followup in todo:
            evals += 1
            status, state, follow, msgs = run_plan(fx, plan, followup)
            if plan[0] == "real-tar":
                at = "real-tar"
            elif plan[0] == "errors":
                at = " + ".join(_at(fx.events, k) for k in plan[1])
            else:
                at = _at(fx.events, plan[1])
            rclass = "good" if resp.startswith("good-") else ("bad-archive" if resp in ("truncated", "bitflip", "not-a-tarball") else "no-download")
            if plan[0] == "crash":
                what = "crash@" + _CALL_CLASS.get(at.split(" ")[0], "other")
            elif mode == "pairs":
                what = "eio-pair"
            else:
                what = plan[0]
            st_class = "old" if state.startswith("old") else state  # old / old-absent / old-empty-dir
            key = f"{rclass}:{what}:{st_class}:{'then-failing-sync:' if followup != 'good' else ''}{follow}"
            classes[key] = classes.get(key, 0) + 1
            post.add((state, follow))
            if msgs:
                viol.append(
                    {
                        "prev": prev,
                        "resp": resp,
                        "plan": [list(x) if isinstance(x, (list, tuple, set, frozenset)) else x for x in plan],
                        "n_events": len(fx.events),
                        "at": at,
                        "state": state,
                        "follow": follow,
                        "followup": followup,
                        "problems": sorted(set(fx.problems)),
                        "msg": f"{prev}/{resp}: {plan[0]} at {plan[1] if len(plan) > 1 else ''} of {len(fx.events)} ({at}): " + "; ".join(msgs),
                    }
                )
        if shard == 0:
            samples.append({"scenario": f"{prev}/{resp}", "events": len(fx.events), "event_list": [_at(fx.events, k) for k in range(len(fx.events))][:80]})
    finally:
        fx.close()
    return {
        "evals": evals,
        "classes": classes,
        "viol": viol,
        "samples": samples,
        "counters": {
            "crash_points": (len(fx.events) + 1) if (shard == 0 and mode == "single") else 0,
            "fault_plans": evals,
            "distinct_post_states": len(post),
        },
        "keep_all_viol": True,
    }


def replay(case):
    fx = Fixture(case["prev"], case["resp"])
    try:
        if len(fx.events) != case["n_events"]:
            raise RuntimeError(f"fault-free run has {len(fx.events)} events, case recorded {case['n_events']}")
        plan = case["plan"]
        _status, _state, _follow, msgs = run_plan(fx, plan, case.get("followup", "good"))
        return msgs
    finally:
        fx.close()


# ---------------------------------------------------------------------------------------------
# narrow classifiers


def _stale_staging(case):
    """The staging directories .<repo>.update/.<repo>.old are removed only by atexit; after a process death they make
    the next sync fail in os.makedirs ('failed creating repo update dirs')."""
    return (
        case.get("follow") == "follow-up-failed"
        and "failed creating repo update dirs" in case.get("msg", "")
        and case.get("plan", [""])[0] in ("crash", "torn")
        and case.get("state") in ("old", "new", "old-absent", "old-empty-dir")
    )


def _rename_window(case):
    """Between rename(repo -> .repo.old) and rename(.repo.update -> repo) the repository path does not exist."""
    if not (case.get("prev") == "present" and case.get("state") == "absent"):
        return False
    if case.get("problems", ["instant"]) != ["instant"]:
        return False  # something besides the instant itself went wrong (e.g. a later failing sync lost the parked tree)
    at, kind = case.get("at", ""), case.get("plan", [""])[0]
    if kind == "crash_after":
        return at.startswith("os.rename /repos/r")  # died right after the first rename
    return kind == "crash" and at.startswith("os.rename /repos/.r.update")


def _second_rename_fails(case):
    """An OSError on the second rename is reported as SyncError with the old tree parked in .repo.old, which the
    atexit clean-up then deletes: neither tree survives."""
    return (
        case.get("prev") == "present"
        and case.get("state") == "absent"
        and case.get("plan", [""])[0] in ("error", "errors")
        and "os.rename /repos/.r.update" in case.get("at", "")
    )


CLASSIFIERS = {
    "stale-staging-dirs-block-next-sync": _stale_staging,
    "repo-path-absent-between-renames": _rename_window,
    "failed-second-rename-loses-old-tree": _second_rename_fails,
}
