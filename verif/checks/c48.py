"""C48 cached metadata is used only while it is still valid (E2: BFS over edit/read histories of a real scratch repository).

A master repository and an overlay (eclass stack overlay-first) live under a scratch directory; the overlay holds one
package and a real metadata cache (flat_hash with mtime + eclassdir, or md5-cache).  Histories of edits and reads are
replayed on the real files; every read goes through a fresh UnconfiguredTree -> package_factory._get_metadata ->
cache.validate_entry / eclass_cache.rebuild_cache_entry and, when needed, the real bash daemon.
"""

import copy
import hashlib
import os
import shutil
import tempfile

from verif.engines import bfs

PROPERTY = "C48"
LEVEL = "model_checking"
ENGINE = "bfs"
TECHNIQUE = (
    "explicit-state breadth-first search over histories of file-level events on a real two-repository scratch tree with a real "
    "metadata cache; every visited state is probed by a read through fresh pkgcore objects and compared with a reference "
    "validity rule, the from-scratch metadata produced by the real daemon without cache, and an independent parse of the entry file"
)
RULE = (
    "state = bytes and mtimes of the four ebuilds, the eclass copies (master/overlay) and the cache entry files (exact, used for "
    "de-duplication). Events: read; edit ebuild; touch ebuild; edit eclass; move eclass between master and overlay; remove "
    "eclass + un-inherit; remove eclass only; strip INHERIT from the entry; corrupt the entry's recorded ebuild checksum; poison a cached value "
    "(thorough adds: touch eclass; shadow the master eclass by a different overlay copy / remove the shadow; corrupt the "
    "recorded eclass checksum; edit the ebuild without changing its mtime (md5 backend); replace the ebuild by different content with an OLDER mtime -- the last two also in every two-event quick history). Every history starts with a read that populates "
    "the cache, and every visited state ends with a probe read. Reference: the entry is valid iff it exists, its recorded "
    "ebuild checksum (md5 backend) / mtime (flat backend) equals the current one and every eclass it records exists in the "
    "stack with the recorded md5 (md5 backend) / directory and mtime (flat backend). A valid entry must be returned as "
    "stored (poison included, which makes use observable); otherwise the result must equal the cacheless regeneration and the "
    "entry file must afterwards hold exactly that metadata with the current checksums. A class is (backend, last event, used/regenerated per package)."
)
ASSUMPTIONS = [
    "Excl: an otherwise valid entry that records eclasses but lacks INHERIT may be used or regenerated (pkgcore regenerates to upgrade the entry; the statement's first sentence does not mention it) -- both outcomes are accepted and followed",
    "Excl: flat (mtime) backend + content edits that keep the mtime (undetectable by the statement's own criterion)",
    "Excl: after removing an eclass that the ebuild still inherits the read must fail like the cacheless read does (returning the stale entry is a violation); what the failed regeneration leaves in the cache is unspecified, so such states are probed but not extended",
    "four packages: two with `inherit e z` (identical eclass set), `inherit w y` with y inheriting e, and `inherit z w e`, so the edited/moved/removed eclass e is the first of two, the middle of three (nested) and the last of three recorded eclasses while the other recorded eclasses (constant w, y, z in the master) stay untouched; ebuild edits and entry corruption/poisoning act on the first package, eclass events concern both; two stacked repositories; cache backends flat_hash.database and flat_hash.md5_cache only",
    "every read (event, probe, second probe) iterates ONE repository instance and reads the metadata of all packages while the package objects and the mappings they returned stay alive; every package is judged separately",
    "mtimes are whole seconds set explicitly by the harness; no wall-clock time enters the oracle",
    "from-scratch metadata is produced by the real daemon through a cacheless UnconfiguredTree on the same files and memoised by file contents (it depends on nothing else)",
]
BOUNDS = {
    "quick": "2 backends x all histories of <= 3 events over the 10-event alphabet (after the populating read), every state probed by a read; md5 backend additionally every two-event history containing an ebuild content edit that keeps the mtime",
    "thorough": "2 backends x (all histories of <= 4 events over the 10-event alphabet + all histories of <= 3 events over the 15-event alphabet)",
}

T0 = 1_600_000_000
EV_QUICK = ["R", "Eb", "Tb", "Ec", "Mv", "Rm", "Rx", "Si", "Cc", "Po"]
EV_EXTRA = ["Te", "Sh", "Us", "Ce", "Eb0", "Eo"]
BACKENDS = ["md5", "flat"]
TIME_CAP = {"thorough": 1500}


# ----------------------------------------------------------------------------------------------- file contents
# Eclass `e` is the one the events edit/move/remove; w, y, z are constant eclasses of the master repository.  The inherit lines
# make `e` the first of two recorded eclasses (pkg and pkg2: identical lines, hence the identical eclass set), the middle of three
# through the nested inherit in y (pkg3: w, e, y) and the last of three (pkg4: z, w, e).  After "remove eclass + un-inherit" the
# second line of each pair applies.
STATIC = {"w": 'IUSE="w"\n', "z": 'IUSE="z"\n', "y": 'inherit e\nIUSE="y"\n'}
INHERIT_LINE = {
    "pkg": {True: "e z", False: "z"},
    "pkg2": {True: "e z", False: "z"},
    "pkg3": {True: "w y", False: "w"},
    "pkg4": {True: "z w e", False: "z w"},
}
SOURCED = {
    "pkg": {True: ["e", "z"], False: ["z"]},
    "pkg2": {True: ["e", "z"], False: ["z"]},
    "pkg3": {True: ["w", "e", "y"], False: ["w"]},
    "pkg4": {True: ["z", "w", "e"], False: ["z", "w"]},
}


def ebuild_text(pkg, ver, inherits):
    return f'EAPI=8\nDESCRIPTION="desc{ver}"\nIUSE="eb{ver}"\ninherit {INHERIT_LINE[pkg][inherits]}\nSLOT=0\n'


def eclass_text(ver):
    return f'IUSE="ec{ver}"\nRDEPEND="cat/ec{ver}"\n'


def md5hex(text):
    return hashlib.md5(text.encode()).hexdigest()


# ----------------------------------------------------------------------------------------------- the world (real files + model)
PKGS = ["pkg", "pkg2", "pkg3", "pkg4"]  # same inherit line; edit/corrupt/poison events act on PKGS[0], eclass events concern both


class World:
    """real files under self.root plus the harness' own record of what it wrote (the model)."""

    def __init__(self, root, backend):
        self.root = root
        self.backend = backend
        self.m = os.path.join(root, "m")
        self.o = os.path.join(root, "o")
        self.clock = 0
        # model of the file system
        self.ebs = {p: {"ver": 0, "inherits": True, "mtime": T0} for p in PKGS}
        self.ecl = {"m": {"ver": 0, "mtime": T0}, "o": None}  # copies of e.eclass
        self.next_ecl_ver = 1
        # model of the cache entries: per package None or dict(meta, eb_chf, ecl (None | recorded tuple), has_inherit)
        self.entries = {p: None for p in PKGS}
        self.cur = PKGS[0]  # the package the per-package helpers below talk about
        self.msgs = []
        self.last = "-"
        self.last_all = "-"
        self.regens = 0

    # ---- per-package views
    @property
    def eb(self):
        return self.ebs[self.cur]

    @property
    def entry(self):
        return self.entries[self.cur]

    @entry.setter
    def entry(self, value):
        self.entries[self.cur] = value

    # ---- paths
    def ebuild_path(self):
        return os.path.join(self.o, "cat", self.cur, f"{self.cur}-1.ebuild")

    def eclass_path(self, where):
        return os.path.join(self.m if where == "m" else self.o, "eclass", "e.eclass")

    def entry_path(self):
        if self.backend == "md5":
            return os.path.join(self.o, "metadata", "md5-cache", "cat", f"{self.cur}-1")
        return os.path.join(self.root, "flatcache", "cat", f"{self.cur}-1")

    def tick(self):
        self.clock += 1
        return T0 + 10 * self.clock

    # ---- writing
    def _write(self, path, text, mtime):
        os.makedirs(os.path.dirname(path), exist_ok=True)
        with open(path, "w") as f:
            f.write(text)
        os.utime(path, (mtime, mtime))

    def create(self):
        for base, name, masters in ((self.m, "master", ""), (self.o, "overlay", "master")):
            os.makedirs(os.path.join(base, "profiles"))
            os.makedirs(os.path.join(base, "metadata"))
            os.makedirs(os.path.join(base, "eclass"))
            with open(os.path.join(base, "profiles", "repo_name"), "w") as f:
                f.write(name + "\n")
            with open(os.path.join(base, "metadata", "layout.conf"), "w") as f:
                f.write(f"masters = {masters}\ncache-formats =\n")
        for n, text in STATIC.items():
            self._write(os.path.join(self.m, "eclass", n + ".eclass"), text, T0)
        self.sync_files()

    def sync_files(self):
        """(re)write ebuilds and eclass copies from the model"""
        keep = self.cur
        for self.cur in PKGS:
            self._write(self.ebuild_path(), ebuild_text(self.cur, self.eb["ver"], self.eb["inherits"]), self.eb["mtime"])
        self.cur = keep
        for where in ("m", "o"):
            p = self.eclass_path(where)
            c = self.ecl[where]
            if c is None:
                if os.path.exists(p):
                    os.unlink(p)
            else:
                self._write(p, eclass_text(c["ver"]), c["mtime"])

    # ---- reference view
    def effective_eclass(self):
        """overlay first, then master (the stack order of ebuild.repository._sort_eclasses)"""
        for where in ("o", "m"):
            if self.ecl[where] is not None:
                return where
        return None

    def cur_eb_chf(self):
        if self.backend == "md5":
            return md5hex(ebuild_text(self.cur, self.eb["ver"], self.eb["inherits"]))
        return str(self.eb["mtime"])

    def cur_ecl_record(self):
        """what a correct entry records for eclass e right now (None if e does not exist)"""
        where = self.effective_eclass()
        if where is None:
            return None
        c = self.ecl[where]
        if self.backend == "md5":
            return (md5hex(eclass_text(c["ver"])),)
        return (os.path.dirname(self.eclass_path(where)), str(c["mtime"]))

    def current_of(self, name):
        """what a correct entry records for the named eclass right now (None if it does not exist)"""
        if name == "e":
            return self.cur_ecl_record()
        if self.backend == "md5":
            return (md5hex(STATIC[name]),)
        return (os.path.join(self.m, "eclass"), str(T0))

    def cur_ecl_records(self):
        """name -> record for every eclass the current package sources, in sourcing order"""
        return {n: self.current_of(n) for n in SOURCED[self.cur][self.eb["inherits"]]}

    def path_of(self, name):
        return self.eclass_path(self.effective_eclass()) if name == "e" else os.path.join(self.m, "eclass", name + ".eclass")

    def entry_valid(self):
        e = self.entry
        if e is None:
            return False
        if e["eb_chf"] != self.cur_eb_chf():
            return False
        if e["ecl"] is None:
            return True
        # every eclass the entry records still exists with the recorded checksum / directory+mtime
        return all(rec == self.current_of(n) for n, rec in e["ecl"].items())

    def content_key(self):
        where = self.effective_eclass()
        return tuple((p, self.ebs[p]["ver"], self.ebs[p]["inherits"]) for p in PKGS) + (None if where is None else self.ecl[where]["ver"],)

    # ---- real reads
    def _trees(self, with_cache):
        from pkgcore.cache import flat_hash
        from pkgcore.ebuild import eclass_cache, repo_objs, repository

        master = repository.UnconfiguredTree(self.m, repo_config=repo_objs.RepoConfig(self.m))
        stack = eclass_cache.StackedCaches(
            [eclass_cache.cache(os.path.join(self.o, "eclass"), location=self.o), eclass_cache.cache(os.path.join(self.m, "eclass"), location=self.o)],
            location=self.o,
            eclassdir=self.o,
        )
        caches = ()
        if with_cache:
            if self.backend == "md5":
                caches = (flat_hash.md5_cache(self.o),)
            else:
                caches = (flat_hash.database(os.path.join(self.root, "flatcache")),)
        return repository.UnconfiguredTree(
            self.o, eclass_cache=stack, masters=(master,), cache=caches, repo_config=repo_objs.RepoConfig(self.o)
        )

    def real_read_all(self, with_cache):
        """ONE repository instance, plain iteration over its packages, metadata of each read in name order while all
        package objects (and the metadata mappings they returned) stay alive.
        -> {package: ("ok", meta, eclasses) | ("error", text)}"""
        tree = self._trees(with_cache)
        alive = sorted(tree, key=lambda pkg: pkg.package)
        out = {}
        held = []
        for pkg in alive:
            try:
                data = pkg.data
                held.append(data)
                meta = {k: v for k, v in data.items() if not k.startswith("_")}
                ecl = data.get("_eclasses_") or {}
                out[pkg.package] = ("ok", meta, {name: getattr(v, "path", None) for name, v in dict(ecl).items()})
            except Exception as e:  # noqa: BLE001
                out[pkg.package] = ("error", f"{type(e).__name__}: {str(e)[:160]}")
        for p in PKGS:
            out.setdefault(p, ("error", "package not found by iterating the repository"))
        del held, alive
        return out

    def broken(self):
        """an ebuild inherits an eclass that exists nowhere: its metadata cannot be generated"""
        return any(e["inherits"] for e in self.ebs.values()) and self.effective_eclass() is None

    def fresh(self, memo):
        """what a cacheless read of the current files gives, per package (a function of the file contents alone, so it is
        memoised per worker process with the scratch root abstracted away)"""
        k = self.content_key()
        if k not in memo:
            self.regens += len(PKGS)
            memo[k] = _swap_root(self.real_read_all(False), self.root, "<root>")
        return _swap_root(copy.deepcopy(memo[k]), "<root>", self.root)

    # ---- independent reader of the entry file (flat_hash format: KEY=value lines)
    def parse_entry_file(self):
        p = self.entry_path()
        if not os.path.exists(p):
            return None
        d = {}
        with open(p) as f:
            for line in f.read().split("\n"):
                if line:
                    k, _, v = line.partition("=")
                    d[k] = v
        if "_eclasses_" in d:
            d["_eclasses_"] = self._parse_eclasses(d["_eclasses_"])
        return d

    def assert_positions(self):
        """harness sanity: in the entry files the events' eclass e is recorded first / first / in the middle / last"""
        want = {"pkg": 0, "pkg2": 0, "pkg3": 1, "pkg4": 2}
        n = 2 if self.backend == "md5" else 3
        keep = self.cur
        for self.cur in PKGS:
            with open(self.entry_path()) as f:
                line = [l for l in f.read().split("\n") if l.startswith("_eclasses_=")][0]
            names = line.split("=", 1)[1].split("\t")[::n]
            if names.index("e") != want[self.cur] or names != SOURCED[self.cur][True]:
                raise AssertionError(f"harness: {self.cur} records eclasses in order {names}, expected {SOURCED[self.cur][True]}")
        self.cur = keep

    def _parse_eclasses(self, text):
        """recorded eclasses as a sorted tuple of (name, record...) -- the order in the file is not part of the property"""
        f = text.split("\t")
        n = 2 if self.backend == "md5" else 3
        if len(f) % n:
            return ("malformed", text)
        return tuple(sorted(tuple(f[i : i + n]) for i in range(0, len(f), n)))

    def expected_entry_file(self):
        """the key/value lines a file holding self.entry must contain"""
        e = self.entry
        if e is None:
            return None
        d = {k: v for k, v in e["meta"].items() if v}
        d["_md5_" if self.backend == "md5" else "_mtime_"] = e["eb_chf"]
        if e["ecl"] is not None:
            d["_eclasses_"] = tuple(sorted((n,) + tuple(rec) for n, rec in e["ecl"].items()))
        return d

    def write_entry_file(self):
        d = self.expected_entry_file()
        if "_eclasses_" in d:
            d["_eclasses_"] = "\t".join("\t".join((n,) + tuple(rec)) for n, rec in self.entry["ecl"].items())
        p = self.entry_path()
        with open(p, "w") as f:
            for k, v in sorted(d.items()):
                f.write(f"{k}={v}\n")

    # ---- the read event with its oracle
    def read(self, memo, probe=False):
        """all packages through one repository instance; every package judged on its own"""
        before = {p: (self._valid_of(p), copy.deepcopy(self.entries[p])) for p in PKGS}
        fresh = self.fresh(memo)
        got = self.real_read_all(True)
        msgs = []
        outcomes = []
        for p in PKGS:
            self.cur = p
            m, outcome = self._judge(before[p][0], before[p][1], fresh[p], got[p])
            msgs += [f"{p}: {x}" for x in m]
            outcomes.append(outcome)
        self.cur = PKGS[0]
        self.msgs = [m.replace(self.root, "<root>") for m in msgs]
        self.last = outcomes[0]
        self.last_all = "/".join(outcomes)

    def _valid_of(self, p):
        keep = self.cur
        self.cur = p
        try:
            return self.entry_valid()
        finally:
            self.cur = keep

    def _judge(self, was_valid, entry_before, fresh, got):
        msgs = []
        lacks_inherit = entry_before is not None and entry_before["ecl"] is not None and not entry_before["has_inherit"]
        stored = entry_before["meta"] if entry_before else None
        if fresh[0] == "error":
            # the recorded eclass is gone and the ebuild still inherits it: like the cacheless read, the read has to fail
            if got[0] != "error":
                how = "the stored (stale) metadata" if got[1] == stored else f"{got[1]}"
                msgs.append(f"inherited eclass no longer exists ({self.why_invalid()}); a cacheless read fails ({fresh[1][:80]}) but the read returned {how}")
            return msgs, "error"
        if got[0] == "error":
            msgs.append(f"read raised {got[1]}")
            return msgs, "error"
        _ok, fresh_meta, _fresh_ecl = fresh
        _ok, got_meta, got_ecl = got
        if was_valid and not lacks_inherit:
            outcome = "used"
            if got_meta != stored:
                if got_meta == fresh_meta:
                    msgs.append(f"the entry is valid but was not used: read returned regenerated metadata {_d(got_meta, stored)}")
                    outcome = "regenerated"
                else:
                    msgs.append(f"valid entry: read returned neither the stored nor the fresh metadata: {_d(got_meta, stored)}")
        elif was_valid and lacks_inherit:
            # Excl: either outcome accepted
            if got_meta == stored and got_meta != fresh_meta:
                outcome = "used"
            elif got_meta == fresh_meta:
                outcome = "regenerated"
            else:
                outcome = "regenerated"
                msgs.append(f"entry without INHERIT: read returned neither the stored nor the fresh metadata: {_d(got_meta, fresh_meta)}")
        else:
            outcome = "regenerated"
            if got_meta != fresh_meta:
                if stored is not None and got_meta == stored:
                    msgs.append(f"stale entry was used ({self.why_invalid()}): read returned the stored metadata, from scratch gives {_d(got_meta, fresh_meta)}")
                    outcome = "used"
                else:
                    msgs.append(f"invalid entry ({self.why_invalid()}): read differs from regeneration from scratch: {_d(got_meta, fresh_meta)}")
        if outcome == "regenerated":
            self.regens += 1
            exp_ecl = {n: self.path_of(n) for n in SOURCED[self.cur][self.eb["inherits"]]}
            if got_ecl != exp_ecl:
                msgs.append(f"inherited eclasses reported {got_ecl}, expected {exp_ecl}")
            self.entry = {
                "meta": fresh_meta,
                "eb_chf": self.cur_eb_chf(),
                "ecl": self.cur_ecl_records(),
                "has_inherit": True,
            }
        # after a read the stored entry must be exactly the (new or untouched) entry, and it must validate
        on_disk = self.parse_entry_file()
        exp = self.expected_entry_file()
        if on_disk != exp:
            msgs.append(f"entry file after the read differs from the expected entry: {_d(on_disk or {}, exp or {})}")
        elif not self.entry_valid():
            msgs.append(f"entry stored by the read does not validate against the files ({self.why_invalid()})")
        return msgs, outcome

    def why_invalid(self):
        e = self.entry
        if e is None:
            return "no entry"
        if e["eb_chf"] != self.cur_eb_chf():
            return f"recorded ebuild chf {e['eb_chf']} != current {self.cur_eb_chf()}"
        if e["ecl"] is not None:
            for n, rec in e["ecl"].items():
                if rec != self.current_of(n):
                    return f"recorded eclass {n} {rec} != current {self.current_of(n)}"
        return "valid"

    # ---- events (edit/corrupt/poison act on PKGS[0])
    def enabled(self, events):
        out = []
        eff = self.effective_eclass()
        self.cur = PKGS[0]
        if self.broken():
            return out  # Excl: what a failed regeneration leaves behind is unspecified -> terminal state (it is still probed)
        for ev in events:
            if ev in ("R", "Eb", "Tb", "Eo"):
                ok = True
            elif ev == "Eb0":
                ok = self.backend == "md5"
            elif ev in ("Ec", "Te", "Rm", "Rx"):
                ok = self.eb["inherits"] and eff is not None
            elif ev == "Mv":
                ok = self.eb["inherits"] and eff is not None and (self.ecl["m"] is None or self.ecl["o"] is None)
            elif ev == "Sh":
                ok = self.eb["inherits"] and self.ecl["m"] is not None and self.ecl["o"] is None
            elif ev == "Us":
                ok = self.eb["inherits"] and self.ecl["m"] is not None and self.ecl["o"] is not None
            elif ev == "Si":
                ok = self.entry is not None and self.entry["has_inherit"] and "INHERIT" in self.entry["meta"]
            elif ev == "Ce":
                ok = self.entry is not None and self.entry["ecl"] is not None and "e" in self.entry["ecl"]
            elif ev in ("Cc", "Po"):
                ok = self.entry is not None
            else:
                raise ValueError(ev)
            if ok:
                out.append(ev)
        return out

    def apply(self, ev, memo):
        self.msgs = []
        self.last = "-"
        self.last_all = "-"
        self.cur = PKGS[0]
        if ev == "R":
            self.read(memo)
            return
        eff = self.effective_eclass()
        if ev == "Eb":
            self.eb["ver"] += 1
            self.eb["mtime"] = self.tick()
        elif ev == "Eb0":
            self.eb["ver"] += 1
        elif ev == "Eo":
            # different content with a timestamp OLDER than anything recorded (rsync -t / cp -p / tar x of an older file)
            self.eb["ver"] += 1
            self.clock += 1
            self.eb["mtime"] = T0 - 10 * self.clock
        elif ev == "Tb":
            self.eb["mtime"] = self.tick()
        elif ev == "Ec":
            self.ecl[eff] = {"ver": self.next_ecl_ver, "mtime": self.tick()}
            self.next_ecl_ver += 1
        elif ev == "Te":
            self.ecl[eff]["mtime"] = self.tick()
        elif ev == "Mv":
            other = "o" if eff == "m" else "m"
            self.ecl[other] = self.ecl[eff]
            self.ecl[eff] = None
        elif ev == "Sh":
            self.ecl["o"] = {"ver": self.next_ecl_ver, "mtime": self.tick()}
            self.next_ecl_ver += 1
        elif ev == "Us":
            self.ecl["o"] = None
        elif ev == "Rm":
            self.ecl = {"m": None, "o": None}
            t = self.tick()
            for e in self.ebs.values():
                e["inherits"] = False
                e["mtime"] = t
        elif ev == "Rx":
            self.ecl = {"m": None, "o": None}
        elif ev == "Si":
            self.entry["meta"].pop("INHERIT")
            self.entry["has_inherit"] = False
            self.write_entry_file()
        elif ev == "Cc":
            self.entry["eb_chf"] = "0" * 32 if self.backend == "md5" else str(T0 - 777)
            self.write_entry_file()
        elif ev == "Ce":
            rec = list(self.entry["ecl"]["e"])
            rec[-1] = "f" * 32 if self.backend == "md5" else str(T0 - 555)
            self.entry["ecl"]["e"] = tuple(rec)
            self.write_entry_file()
        elif ev == "Po":
            self.entry["meta"]["DESCRIPTION"] = "POISON" + str(self.clock)
            self.clock += 1
            self.write_entry_file()
        else:
            raise ValueError(ev)
        if ev not in ("Si", "Cc", "Ce", "Po"):
            self.sync_files()

    # ---- snapshots
    def snapshot(self):
        files = {}
        for base, _dirs, names in os.walk(self.root):
            for n in names:
                p = os.path.join(base, n)
                with open(p, "rb") as f:
                    files[os.path.relpath(p, self.root)] = (f.read(), int(os.stat(p).st_mtime))
        model = copy.deepcopy({k: getattr(self, k) for k in ("clock", "ebs", "ecl", "next_ecl_ver", "entries")})
        return files, model

    def restore(self, snap):
        files, model = snap
        shutil.rmtree(self.root, ignore_errors=True)
        for rel, (data, mtime) in files.items():
            p = os.path.join(self.root, rel)
            os.makedirs(os.path.dirname(p), exist_ok=True)
            with open(p, "wb") as f:
                f.write(data)
            os.utime(p, (mtime, mtime))
        for sub in ("m/eclass", "o/eclass"):
            os.makedirs(os.path.join(self.root, sub), exist_ok=True)
        for k, v in copy.deepcopy(model).items():
            setattr(self, k, v)
        self.cur = PKGS[0]

    def canon(self):
        """exact observable state: bytes+mtime of ebuilds, eclass copies and entry files (repository boilerplate is constant)"""
        files, _ = self.snapshot()
        keep = {}
        for rel, v in files.items():
            is_entry = "/cat/" in "/" + rel and rel.endswith("-1")
            if rel.endswith((".ebuild", ".eclass")):
                keep[rel] = v
            elif is_entry:
                keep[rel] = (v[0], 0)  # entry file mtime is wall clock, not state
        return tuple(sorted(keep.items()))


def _swap_root(res, a, b):
    out = {}
    for p, r in res.items():
        if r[0] == "ok":
            out[p] = ("ok", r[1], {n: (path.replace(a, b) if isinstance(path, str) else path) for n, path in r[2].items()})
        else:
            out[p] = ("error", r[1].replace(a, b))
    return out


_FRESH = {}  # content key -> cacheless metadata; shared by the tasks a worker process handles


def _d(a, b):
    """compact difference of two dicts"""
    a, b = a or {}, b or {}
    return "{" + ", ".join(f"{k}: {a.get(k)!r} vs {b.get(k)!r}" for k in sorted(set(a) | set(b)) if a.get(k) != b.get(k)) + "}"


# ----------------------------------------------------------------------------------------------- exploration
class Explorer:
    def __init__(self, backend, events):
        self.backend = backend
        self.events = events
        self.dir = tempfile.mkdtemp(dir="/dev/shm", prefix=f"verif-C48-{os.getpid()}-")
        self.root = os.path.join(self.dir, "w")
        self.memo_fresh = _FRESH
        self.states = {}  # hist -> dict(snap, canon, enabled, msgs, cls)
        self.regens = 0
        self.reads = 0

    def close(self):
        try:
            from pkgcore.ebuild import processor

            processor.shutdown_all_processors()
        finally:
            shutil.rmtree(self.dir, ignore_errors=True)

    def build(self, hist):
        hist = tuple(hist)
        st = self.states.get(hist)
        if st is not None:
            return st
        w = World(self.root, self.backend)
        if not hist:
            shutil.rmtree(self.root, ignore_errors=True)
            os.makedirs(self.root)
            w.create()
            w.read(self.memo_fresh)  # populating read
            self.reads += 1
            msgs = [f"populating read: {m}" for m in w.msgs]
            if not msgs:
                w.assert_positions()
            ev_cls = "populate:" + w.last_all
        else:
            parent = self.build(hist[:-1])
            if parent is None or parent["msgs"]:
                # a violating state is reported (by the partition that owns it) but never extended: model and files disagree there
                st = self.states[hist] = None
                return st
            w.restore(parent["snap"])
            if hist[-1] not in w.enabled(self.events):
                st = self.states[hist] = None
                return st
            w.apply(hist[-1], self.memo_fresh)
            if hist[-1] == "R":
                self.reads += 1
            msgs = [f"event {hist[-1]}: {m}" for m in w.msgs]
            ev_cls = f"{hist[-1]}:{w.last_all}" if hist[-1] == "R" else None
        snap = w.snapshot()
        canon = w.canon()
        enabled = [] if msgs else w.enabled(self.events)
        # probe: a read in this state (its effects are discarded: children restore `snap`)
        w.read(self.memo_fresh)
        self.reads += 1
        msgs += [f"probe read: {m}" for m in w.msgs]
        probe_outcome = w.last_all
        # and once more: whatever the probe stored must now be served from the cache
        if not w.msgs and "error" not in w.last_all:
            w.read(self.memo_fresh)
            self.reads += 1
            if set(w.last_all.split("/")) != {"used"} and not w.msgs:
                w.msgs.append(f"entries written by the previous read were not all used ({w.last_all})")
            msgs += [f"second probe read: {m}" for m in w.msgs]
        cls = f"{self.backend}|after {hist[-1] if hist else 'populate'}|probe {probe_outcome if not msgs else 'VIOL'}"
        self.regens += w.regens
        if msgs:
            enabled = []
        st = self.states[hist] = {"snap": snap, "canon": canon, "enabled": enabled, "msgs": msgs, "cls": cls, "ev_cls": ev_cls}
        return st


def run_partition(backend, events, root, max_depth):
    ex = Explorer(backend, events)
    classes = {}
    try:
        # the root prefix must be executable
        for i in range(len(root) + 1):
            if ex.build(root[:i]) is None:
                return None

        def build(hist):
            return ex.build(hist)

        def enabled(obj, hist):
            return obj["enabled"]

        def canon(obj):
            return obj["canon"]

        def check(obj, hist):
            classes[obj["cls"]] = classes.get(obj["cls"], 0) + 1
            if obj["ev_cls"]:
                k = f"{backend}|event {obj['ev_cls']}"
                classes[k] = classes.get(k, 0) + 1
            return obj["msgs"]

        res = bfs.explore(tuple(root), build, enabled, canon, check, max_depth)
        res["classes"] = classes
        res["reads"] = ex.reads
        res["regens"] = ex.regens
        return res
    finally:
        ex.close()


# ----------------------------------------------------------------------------------------------- tasks
def tasks(tier):
    out = []
    for be in BACKENDS:
        if tier == "quick":
            depth = 3
            out.append((be, "q", (), 1))  # the initial state and all single events
            for a in EV_QUICK:
                for b in EV_QUICK:
                    out.append((be, "q", (a, b), depth))
            if be == "md5":
                # content edit that keeps the ebuild's mtime (only a checksum-validated cache can notice it):
                # every two-event history containing it, so that a validity decision taken from a remembered
                # (path, mtime) instead of the current checksum shows up inside one history
                for b in EV_QUICK + ["Eb0"]:
                    out.append((be, "e", ("Eb0", b), 2))
                for a in EV_QUICK:
                    out.append((be, "e", (a, "Eb0"), 2))
            # ebuild replaced by different content with an OLDER mtime (newer = Eb, equal = Eb0 are the controls): alone and in
            # every two-event history, both backends (the mtime-keyed cache must notice "differs", not only "newer")
            out.append((be, "o", (), 1))
            for b in EV_QUICK + ["Eo"]:
                out.append((be, "o", ("Eo", b), 2))
            for a in EV_QUICK:
                out.append((be, "o", (a, "Eo"), 2))
        else:
            out.append((be, "q", (), 1))
            for a in EV_QUICK:
                for b in EV_QUICK:
                    out.append((be, "q", (a, b), 4))
            allev = EV_QUICK + EV_EXTRA
            out.append((be, "x", (), 1))
            for a in allev:
                for b in allev:
                    out.append((be, "x", (a, b), 3))
    return out


def work(task):
    import logging

    logging.getLogger("pkgcore").setLevel(logging.CRITICAL)
    be, alpha, root, depth = task
    events = {"q": EV_QUICK, "e": EV_QUICK + ["Eb0"], "o": EV_QUICK + ["Eo"]}.get(alpha, EV_QUICK + EV_EXTRA)
    res = run_partition(be, events, root, depth)
    if res is None:
        return {"evals": 0, "classes": {}, "viol": [], "samples": [], "counters": {"states": 0, "transitions": 0, "roots_not_enabled": 1}}
    viol = []
    for hist, msg in res["viol"]:
        viol.append({"backend": be, "events": alpha, "hist": list(hist), "msg": msg})
    # the root state itself is re-visited by every partition sharing a prefix: count only states below the root, plus the
    # root when this partition owns it (depth-1 task owns () and the single events; pair tasks own the pair)
    return {
        "evals": res["reads"],
        "classes": res["classes"],
        "viol": viol,
        "samples": [{"backend": be, "history": ["R(populate)"] + list(res["sample"]) + ["R(probe)"]}],
        "counters": {
            "states": res["states"],
            "transitions": res["transitions"] + len(root),
            "max_depth": res["max_depth"],
            "daemon_regens": res["regens"],
        },
    }


def replay(case):
    import logging

    logging.getLogger("pkgcore").setLevel(logging.CRITICAL)
    events = {"q": EV_QUICK, "e": EV_QUICK + ["Eb0"], "o": EV_QUICK + ["Eo"]}.get(case["events"], EV_QUICK + EV_EXTRA)
    ex = Explorer(case["backend"], events)
    try:
        st = None
        for i in range(len(case["hist"]) + 1):
            st = ex.build(tuple(case["hist"][:i]))
            if st is None:
                return []
        return list(st["msgs"])
    finally:
        ex.close()


CLASSIFIERS = {}
