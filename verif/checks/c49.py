"""C49 generated metadata accumulates eclass values as PMS requires (E1; real bash daemon vs a straight-line interpreter).

Small ebuild/eclass programs are written into scratch repositories, their metadata is regenerated through the real
ebuild daemon (UnconfiguredTree without cache -> package_factory._update_metadata -> EbuildProcessor.get_keys ->
ebuild.bash/__load_ebuild + inherit()), and compared with an independent interpreter of the same programs.
"""

import itertools
import os
import shutil
import tempfile

PROPERTY = "C49"
LEVEL = "exploration"
ENGINE = "enum"
TECHNIQUE = (
    "exhaustive enumeration of per-variable assignment patterns over the five program positions (ebuild before inherit, "
    "outer eclass before its nested inherit, inner eclass, outer eclass after, ebuild after; forms none / set / set empty / append / unset / unset-then-set) x inherit shapes x EAPIs, every "
    "repository regenerated through the real ebuild daemon and compared with a straight-line reference interpreter of PMS 10.2"
)
RULE = (
    "a pattern fixes, for one variable, the statement at each of the five positions (none / VAR=\"tok\" / VAR=\"\" / VAR+=\" tok\" / "
    "unset VAR / unset VAR; VAR=\"tok\", each position with its own token). Every repository assigns patterns to all 11 variables (IUSE REQUIRED_USE "
    "DEPEND RDEPEND BDEPEND IDEPEND PDEPEND PROPERTIES RESTRICT DESCRIPTION SLOT) by rotating the pattern list with a stride, so "
    "that over the enumeration every variable meets every pattern while neighbours carry different ones; a phase-function "
    "configuration (functions in the ebuild / EXPORT_FUNCTIONS in the eclasses / non-phase helpers / phases foreign to the EAPI) "
    "rides along. Shapes: no inherit; one eclass; nested (e1 inherits e2); two flat; diamond (e1 e2 with e1 inheriting e2). "
    "Compared per EAPI-valid key: accumulated keys as token sets (ebuild's final value + each sourced eclass's final value), "
    "other keys as the token list of the last assignment, INHERIT (direct, in order), the inherited eclass set, DEFINED_PHASES. "
    "A class is (key kind, shape, number of positions carrying a statement) or (key kind, EAPI group)."
)
ASSUMPTIONS = [
    "PMS 10.2 reading used by the reference: while an eclass is sourced the accumulated variables start unset; whatever the eclass leaves in them (non-empty) is that eclass's value; the caller's values are untouched by the inherit; the final metadata value is the ebuild's own final value followed by all eclass values; comparison is on token sets because PMS does not order or de-duplicate them",
    "EAPI 0-3 implicit RDEPEND (PMS 7.3.7/10.2): an ebuild leaving RDEPEND unset gets its own final DEPEND as RDEPEND, eclass DEPEND never enters it, eclass RDEPEND accumulates on top",
    "Excl: keys that the EAPI does not define (REQUIRED_USE < 4, BDEPEND < 7, IDEPEND < 8) are not compared",
    "Excl: values are single alphanumeric tokens (no whitespace runs, globs, 'unset' as a literal value, leading dashes that echo would eat)",
    "Excl: conditional inherits, inherit inside functions, eclasses that unset or redefine functions, EXPORT_FUNCTIONS called more than once per eclass",
    "metadata is read as package.data from a fresh UnconfiguredTree without cache (the raw key/value mapping; attribute parsing is C09/C10 territory)",
    "EAPI 9 is disabled in this sandbox (bash 5.2): EAPIs 0-8 only",
]
BOUNDS = {
    "quick": "nested shape: 72 rotations (origins spread evenly over the 600 core patterns; 11 variables x 72 = 792 variable/pattern combinations) x EAPIs {0,5,7,8}; none/single/flat/diamond: 12/24/24/36 rotations x EAPIs {0,8}; 10 phase configurations (EXPORT_FUNCTIONS before / after the function definitions, one or both eclasses) rotating; 480 repositories",
    "thorough": "nested shape: all rotations of the full pattern list (every variable meets every pattern) x EAPIs 0-8; other four shapes: all rotations x EAPIs {0,8}; 10 phase configurations (EXPORT_FUNCTIONS before / after the function definitions, one or both eclasses) rotating; 1 500 patterns, 25 500 repositories (time cap 25 min, evidence states what was completed)",
}

ACC_ALWAYS = ["IUSE", "REQUIRED_USE", "DEPEND", "RDEPEND", "BDEPEND", "IDEPEND", "PDEPEND"]
ACC_EAPI8 = ["PROPERTIES", "RESTRICT"]
OTHER = ["DESCRIPTION", "SLOT"]
VARS = ACC_ALWAYS + ACC_EAPI8 + OTHER
MIN_EAPI = {"REQUIRED_USE": 4, "BDEPEND": 7, "IDEPEND": 8}
TOKEN_PREFIX = {
    "IUSE": "iu", "REQUIRED_USE": "ru", "DEPEND": "c/de", "RDEPEND": "c/rd", "BDEPEND": "c/bd", "IDEPEND": "c/id",
    "PDEPEND": "c/pd", "PROPERTIES": "pr", "RESTRICT": "re", "DESCRIPTION": "De", "SLOT": "Sl",
}  # fmt: skip
POSITIONS = ["B", "E1a", "E2", "E1b", "A"]
# statement forms: "-" none, "s" set token, "e" set empty, "a" append token, "u" unset, "x" unset then set token
FORMS_CORE = {"B": "-s", "E1a": "-su", "E2": "-suax", "E1b": "-saux", "A": "-sau"}
FORMS_FULL = {"B": "-se", "E1a": "-suax", "E2": "-suax", "E1b": "-saux", "A": "-sau"}
SHAPES = ["nested", "none", "single", "flat", "diamond"]

PHASES_ALL = ["pkg_setup", "pkg_nofetch", "src_unpack", "src_compile", "src_test", "src_install", "pkg_preinst", "pkg_postinst",
              "pkg_prerm", "pkg_postrm", "pkg_config", "pkg_info"]  # fmt: skip


def phases_of(eapi):
    """phase functions defined by PMS for the EAPI (table 9.x): src_prepare/src_configure from 2, pkg_pretend from 4"""
    out = list(PHASES_ALL)
    if eapi >= 2:
        out += ["src_prepare", "src_configure"]
    if eapi >= 4:
        out += ["pkg_pretend"]
    return out


# phase configurations: (functions defined in the ebuild, {eclass: (functions defined, phases exported[, EXPORT_FUNCTIONS before|after the <eclass>_<phase> definitions])})
PHASE_CONFIGS = [
    ([], {}),
    (["src_compile"], {}),
    ([], {"e1": ([], ["src_prepare"], "before")}),
    ([], {"e2": (["pkg_pretend"], [])}),
    (["my_helper"], {"e2": (["e2_src_test"], [])}),
    (["pkg_setup"], {"e1": ([], ["src_compile"], "after"), "e2": ([], ["src_compile", "pkg_postinst"], "before")}),
    (["src_prepare", "pkg_pretend", "pkg_postinst"], {}),
    (["src_configure"], {"e1": (["pkg_info"], ["src_test"], "before"), "e2": (["pkg_config"], [])}),
    ([], {"e2": ([], ["src_install", "pkg_preinst"], "before")}),
    ([], {"e1": ([], ["src_unpack"], "after"), "e2": ([], ["pkg_postrm"], "after")}),
]


def patterns(full):
    forms = FORMS_FULL if full else FORMS_CORE
    # simplest first: fewer statements first
    allp = list(itertools.product(*[forms[p] for p in POSITIONS]))
    allp.sort(key=lambda t: (sum(c != "-" for c in t), t))
    return ["".join(t) for t in allp]


# ----------------------------------------------------------------------------------------------- program construction
def tok(var, pos):
    return TOKEN_PREFIX[var] + pos.lower()


def stmt(var, form, pos):
    if form == "s":
        return ["set", var, tok(var, pos)]
    if form == "e":
        return ["set", var, ""]
    if form == "a":
        return ["app", var, tok(var, pos)]
    if form == "u":
        return ["unset", var]
    if form == "x":
        return ["reset", var, tok(var, pos)]
    return None


def build_programs(shape, assign, phase_cfg):
    """assign: {var: 5-char pattern}. Returns {"ebuild": prog, "e1": prog, "e2": prog} (eclasses only if sourced).
    A program is a list of statements: [set|app|reset, VAR, tok] [unset, VAR] [inherit, name...] [func, name] [export, phase...]"""
    efuncs, ecfg = PHASE_CONFIGS[phase_cfg]
    eb, e1, e2 = [], [], []
    for var in VARS:
        pat = assign.get(var, "-----")
        for prog, pos in ((eb, "B"), (e1, "E1a"), (e2, "E2")):
            s = stmt(var, pat[POSITIONS.index(pos)], pos)
            if s:
                prog.append(s)
    if shape in ("nested", "diamond"):
        e1.append(["inherit", "e2"])
    if shape == "single":
        eb.append(["inherit", "e2"])
    elif shape == "nested":
        eb.append(["inherit", "e1"])
    elif shape in ("flat", "diamond"):
        eb.append(["inherit", "e1", "e2"])
    for var in VARS:
        pat = assign.get(var, "-----")
        for prog, pos in ((e1, "E1b"), (eb, "A")):
            s = stmt(var, pat[POSITIONS.index(pos)], pos)
            if s:
                prog.append(s)
    for f in efuncs:
        eb.append(["func", f])
    for name, prog in (("e1", e1), ("e2", e2)):
        cfg = ecfg.get(name, ([], []))
        defs, exports = cfg[0], cfg[1]
        order = cfg[2] if len(cfg) > 2 else "after"  # EXPORT_FUNCTIONS before (the usual eclass layout) or after the definitions
        for f in defs:
            prog.append(["func", f])
        if exports and order == "before":
            prog.append(["export"] + list(exports))
        for ph in exports:
            prog.append(["func", f"{name}_{ph}"])
        if exports and order == "after":
            prog.append(["export"] + list(exports))
    out = {"ebuild": eb}
    if shape in ("nested", "flat", "diamond"):
        out["e1"] = e1
    if shape != "none":
        out["e2"] = e2
    return out


def render(prog, eapi=None):
    lines = []
    if eapi is not None:
        lines.append(f"EAPI={eapi}")
    for st in prog:
        k = st[0]
        if k == "set":
            lines.append(f'{st[1]}="{st[2]}"')
        elif k == "app":
            lines.append(f'{st[1]}+=" {st[2]}"')
        elif k == "unset":
            lines.append(f"unset {st[1]}")
        elif k == "reset":
            lines.append(f"unset {st[1]}")
            lines.append(f'{st[1]}="{st[2]}"')
        elif k == "inherit":
            lines.append("inherit " + " ".join(st[1:]))
        elif k == "func":
            lines.append(f"{st[1]}() {{ :; }}")
        elif k == "export":
            lines.append("EXPORT_FUNCTIONS " + " ".join(st[1:]))
        else:
            raise ValueError(st)
    return "\n".join(lines) + "\n"


# ----------------------------------------------------------------------------------------------- reference interpreter
def accumulated(eapi):
    return ACC_ALWAYS + (ACC_EAPI8 if eapi >= 8 else [])


def interpret(eapi, progs):
    """PMS 10.2, straight line.  Returns expected {key: value} where accumulated keys map to token sets, other keys to
    token lists, INHERIT to a list, INHERITED to a set, DEFINED_PHASES to a set."""
    acc = accumulated(eapi)
    glob = {}  # every non-accumulated variable: one global namespace
    own = {}  # the ebuild's own accumulated variables
    contrib = {v: [] for v in acc}
    funcs = set()
    sourced = []
    direct = []

    def run(prog, scope, who):
        for st in prog:
            k = st[0]
            if k in ("set", "app", "unset", "reset"):
                target = scope if st[1] in acc else glob
                if k in ("set", "reset"):
                    target[st[1]] = st[2]
                elif k == "app":
                    target[st[1]] = target.get(st[1], "") + " " + st[2]
                else:
                    target.pop(st[1], None)
            elif k == "inherit":
                if who == "ebuild":
                    direct.extend(st[1:])
                for name in st[1:]:
                    fresh = {}
                    run(progs[name], fresh, name)
                    for v in acc:
                        if fresh.get(v, "").split():
                            contrib[v].append(fresh[v])
                    sourced.append(name)
            elif k == "func":
                funcs.add(st[1])
            elif k == "export":
                for ph in st[1:]:
                    funcs.add(ph)

    run(progs["ebuild"], own, "ebuild")
    exp = {}
    for v in VARS:
        if eapi < MIN_EAPI.get(v, 0):
            continue
        if v in acc:
            mine = own.get(v, "")
            if v == "RDEPEND" and eapi <= 3 and "RDEPEND" not in own:
                # EAPI 0-3: an ebuild that leaves RDEPEND unset (not merely empty) gets its *own* DEPEND as RDEPEND; eclass
                # DEPEND is never part of it, eclass RDEPEND still accumulates on top
                mine = own.get("DEPEND", "")
            toks = set(mine.split())
            for c in contrib[v]:
                toks |= set(c.split())
            exp[v] = toks
        else:
            exp[v] = glob.get(v, "").split()
    exp["INHERIT"] = direct
    exp["INHERITED"] = set(sourced)
    exp["DEFINED_PHASES"] = {p.split("_", 1)[1] for p in phases_of(eapi) if p in funcs}
    return exp


# ----------------------------------------------------------------------------------------------- real side
class Scratch:
    def __init__(self):
        self.dir = tempfile.mkdtemp(dir="/dev/shm", prefix=f"verif-C49-{os.getpid()}-")
        self.n = 0

    def close(self):
        try:
            from pkgcore.ebuild import processor

            processor.shutdown_all_processors()
        finally:
            shutil.rmtree(self.dir, ignore_errors=True)

    def regen(self, eapi, progs):
        """write the repository, regenerate through the daemon, return the raw metadata mapping"""
        from pkgcore.ebuild import repo_objs, repository

        self.n += 1
        root = os.path.join(self.dir, f"r{self.n}")
        for d in ("profiles", "metadata", "eclass", "cat/pkg"):
            os.makedirs(os.path.join(root, d))
        with open(os.path.join(root, "profiles", "repo_name"), "w") as f:
            f.write("scratch\n")
        with open(os.path.join(root, "metadata", "layout.conf"), "w") as f:
            f.write("masters =\ncache-formats =\n")
        for name, prog in progs.items():
            if name == "ebuild":
                continue
            with open(os.path.join(root, "eclass", name + ".eclass"), "w") as f:
                f.write(render(prog))
        with open(os.path.join(root, "cat", "pkg", "pkg-1.ebuild"), "w") as f:
            f.write(render(progs["ebuild"], eapi))
        try:
            repo = repository.UnconfiguredTree(root, repo_config=repo_objs.RepoConfig(root))
            pkg = repo.package_class("cat", "pkg", "1")
            data = dict(pkg.data)
        finally:
            shutil.rmtree(root, ignore_errors=True)
        return data


def compare(eapi, progs, data):
    """-> list of (key, message)"""
    exp = interpret(eapi, progs)
    acc = accumulated(eapi)
    out = []
    for v in VARS:
        if v not in exp:
            continue
        raw = data.get(v, "")
        if v in acc:
            got = set(raw.split())
            if got != exp[v]:
                out.append((v, f"{v}: daemon gave {raw!r} (tokens {sorted(got)}), PMS accumulation gives {sorted(exp[v])}"))
        else:
            if raw.split() != exp[v]:
                out.append((v, f"{v}: daemon gave {raw!r}, the last assignment gives {' '.join(exp[v])!r}"))
    raw = data.get("INHERIT", "")
    if raw.split() != exp["INHERIT"]:
        out.append(("INHERIT", f"INHERIT: daemon gave {raw!r}, direct inherits are {exp['INHERIT']}"))
    got = set(data.get("_eclasses_", {}) or {})
    if got != exp["INHERITED"]:
        out.append(("INHERITED", f"inherited eclasses: daemon gave {sorted(got)}, sourced were {sorted(exp['INHERITED'])}"))
    raw = data.get("DEFINED_PHASES", "")
    got = set() if raw.strip() == "-" else set(raw.split())
    if got != exp["DEFINED_PHASES"] or (not exp["DEFINED_PHASES"] and raw.strip() != "-"):
        out.append(("DEFINED_PHASES", f"DEFINED_PHASES: daemon gave {raw!r}, defined phase functions are {sorted(exp['DEFINED_PHASES']) or '-'}"))
    if data.get("EAPI", "0") != str(eapi):
        out.append(("EAPI", f"EAPI: daemon gave {data.get('EAPI')!r}"))
    return out


def check_repo(sc, eapi, shape, assign, phase_cfg):
    """-> (n_keys_compared, classes, violations)"""
    progs = build_programs(shape, assign, phase_cfg)
    try:
        data = sc.regen(eapi, progs)
        bad = compare(eapi, progs, data)
    except Exception as e:  # noqa: BLE001 - a failing regen of a legal program is an observation
        bad = [("*", f"metadata regeneration failed: {type(e).__name__}: {str(e)[:300]}")]
        data = None
    classes = {}
    acc = accumulated(eapi)
    grp = "eapi8" if eapi >= 8 else ("eapi0-3" if eapi <= 3 else "eapi4-7")
    nkeys = 3
    for v in VARS:
        if eapi < MIN_EAPI.get(v, 0):
            continue
        nkeys += 1
        pat = assign.get(v, "-----")
        used = "".join("x" if c != "-" else "-" for c in pat)
        cls = f"{'acc' if v in acc else 'last'}|{shape}|{grp}|{used}"
        classes[cls] = classes.get(cls, 0) + 1
    viol = []
    for key, msg in bad:
        viol.append({"eapi": eapi, "shape": shape, "assign": dict(assign), "phase_cfg": phase_cfg, "key": key, "msg": msg})
    return nkeys, classes, viol


# ----------------------------------------------------------------------------------------------- tasks
STRIDE = 37  # coprime with 288 and 768: neighbouring variables get far-apart patterns
CHUNK = 12
TIME_CAP = {"thorough": 1500}


def plan(tier):
    """list of (shape, eapi, full, [pattern indices])"""
    out = []
    if tier == "quick":
        n = len(patterns(False))

        def spread(k):  # k rotation origins spread evenly over the pattern list
            return [i * n // k for i in range(k)]

        for eapi in (0, 5, 7, 8):
            out.append(("nested", eapi, False, spread(72)))
        for shape, k in (("none", 12), ("single", 24), ("flat", 24), ("diamond", 36)):
            for eapi in (0, 8):
                out.append((shape, eapi, False, spread(k)))
    else:
        n = len(patterns(True))
        for eapi in range(9):
            out.append(("nested", eapi, True, list(range(n))))
        for shape in ("none", "single", "flat", "diamond"):
            for eapi in (0, 8):
                out.append((shape, eapi, True, list(range(n))))
    return out


def tasks(tier):
    out = []
    for shape, eapi, full, idxs in plan(tier):
        chunk = CHUNK if tier == "quick" else 4 * CHUNK  # one daemon spawn per task
        for i in range(0, len(idxs), chunk):
            out.append((shape, eapi, full, idxs[i : i + chunk]))
    return out


def cfg_of(p):
    """phase configuration riding along with rotation origin p (multiplicative hash: the origins are evenly spaced, a plain
    modulus would only ever pick a few configurations)"""
    return ((p * 2654435761) >> 7) % len(PHASE_CONFIGS)


def assignment(pats, p):
    return {v: pats[(p + k * STRIDE) % len(pats)] for k, v in enumerate(VARS)}


def work(task):
    shape, eapi, full, idxs = task
    pats = patterns(full)
    sc = Scratch()
    evals = 0
    classes = {}
    viol = []
    samples = []
    regens = 0
    try:
        for p in idxs:
            assign = assignment(pats, p)
            cfg = cfg_of(p)
            n, cl, v = check_repo(sc, eapi, shape, assign, cfg)
            regens += 1
            evals += n
            for k, c in cl.items():
                classes[k] = classes.get(k, 0) + c
            viol.extend(v)
        if idxs:
            pr = build_programs(shape, assignment(pats, idxs[0]), cfg_of(idxs[0]))
            samples.append({"eapi": eapi, "ebuild": render(pr["ebuild"], eapi), "eclasses": {n: render(x) for n, x in pr.items() if n != "ebuild"}})
        # Daemon round trips are the cost: minimise (violated variable alone, no phase functions) only the first two cases
        # of every (key, classifier verdict) group of this task; the other members of a group are counted, not reported.
        groups = {}
        for c in viol:
            g = (c["key"], tuple(k for k, f in CLASSIFIERS.items() if f(c)))
            groups.setdefault(g, []).append(c)
        uniq = []
        for g in sorted(groups):
            for c in groups[g][:2]:
                uniq.append(_minimise(sc, c))
        dropped = sum(max(0, len(v) - 2) for v in groups.values())
    finally:
        sc.close()
    return {"evals": evals, "classes": _coarse(classes), "viol": uniq, "samples": samples, "counters": {"repositories": regens, "violating_keys": len(viol), "violations_not_listed_same_group": dropped}}


def _minimise(sc, case):
    key = case["key"]
    if key in VARS:
        small = {key: case["assign"].get(key, "-----")}
        try:
            p2 = build_programs(case["shape"], small, 0)
            b2 = [m for k, m in compare(case["eapi"], p2, sc.regen(case["eapi"], p2)) if k == key]
        except Exception:  # noqa: BLE001
            b2 = []
        if b2:
            case = {"eapi": case["eapi"], "shape": case["shape"], "assign": small, "phase_cfg": 0, "key": key, "msg": b2[0]}
    progs = build_programs(case["shape"], case["assign"], case["phase_cfg"])
    case["ebuild"] = render(progs["ebuild"], case["eapi"])
    case["eclasses"] = {n: render(p) for n, p in progs.items() if n != "ebuild"}
    return case


def _coarse(classes):
    """keep <= ~60 names: (key kind, shape, number of positions carrying a statement) and (key kind, EAPI group)"""
    out = {}
    for k, n in classes.items():
        kind, shape, grp, used = k.split("|")
        for kk in (f"{kind}|{shape}|{min(used.count('x'), 3)}stmts", f"{kind}|{grp}"):
            out[kk] = out.get(kk, 0) + n
    return out


def replay(case):
    sc = Scratch()
    try:
        progs = build_programs(case["shape"], case["assign"], case["phase_cfg"])
        try:
            data = sc.regen(case["eapi"], progs)
        except Exception as e:  # noqa: BLE001
            return [f"metadata regeneration failed: {type(e).__name__}: {str(e)[:300]}"] if case["key"] == "*" else []
        return [m for k, m in compare(case["eapi"], progs, data) if k == case["key"]]
    finally:
        sc.close()


# ----------------------------------------------------------------------------------------------- classifiers
def _eclass_unsets_violated_key(case):
    """an inherited eclass executes `unset VAR` on the accumulated variable whose value is wrong (bash removes inherit()'s
    protecting local from the outer scope, exposing/clobbering the caller's variable)"""
    key = case["key"]
    if key not in accumulated(case["eapi"]):
        return False
    progs = build_programs(case["shape"], case["assign"], case["phase_cfg"])
    return any(st[0] in ("unset", "reset") and st[1] == key for n, p in progs.items() if n != "ebuild" for st in p)


CLASSIFIERS = {"eclass-unsets-accumulated-variable": _eclass_unsets_violated_key}
