"""E2: explicit-state breadth-first search over operation histories of real objects.

A state is identified by the canonical snapshot ``canon(obj)`` of the real object
reached by replaying an event history on a fresh instance (live pkgcore objects
rarely copy).  ``canon`` must be *exact* for the property's observable state.
The search below one root prefix is sequential and deterministic; the runner
partitions the space by root prefix (each partition keeps its own seen-set, so
the reported state count is the sum over partitions and may count a state
reached from two prefixes twice -- an over-fine partition only costs time).
"""

import collections


def explore(root, build, enabled, canon, check, max_depth, max_states=None):
    """root: tuple of events (replayed first).  build(hist)->obj (fresh real object with hist applied;
    may return (obj, aux)).  enabled(obj, hist)->iterable of events.  canon(obj)->hashable.
    check(obj, hist)->list of violation messages (evaluated in *every* visited state).
    Returns dict(states, transitions, max_depth, viol=[(hist,msg)], samples, capped)."""
    viol = []
    obj = build(root)
    msgs = check(obj, root)
    for m in msgs:
        viol.append((list(root), m))
    seen = {canon(obj)}
    frontier = collections.deque([tuple(root)])
    transitions = 0
    maxd = len(root)
    sample = list(root)
    capped = False
    while frontier:
        hist = frontier.popleft()
        if len(hist) >= max_depth:
            continue
        obj = build(hist)
        for ev in enabled(obj, hist):
            nh = hist + (ev,)
            nobj = build(nh)
            transitions += 1
            for m in check(nobj, nh):
                if len(viol) < 50:
                    viol.append((list(nh), m))
            k = canon(nobj)
            if k not in seen:
                seen.add(k)
                frontier.append(nh)
                if len(nh) > maxd:
                    maxd = len(nh)
                    sample = list(nh)
                if max_states and len(seen) >= max_states:
                    capped = True
                    frontier.clear()
                    break
    return {
        "states": len(seen),
        "transitions": transitions,
        "max_depth": maxd,
        "viol": viol,
        "sample": sample,
        "capped": capped,
    }
