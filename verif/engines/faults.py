"""E3: crash-point / torn-write / error enumeration on the real write path.

The event source is a CPython audit hook (installed once per process, active only
while an injector is armed).  An audit hook runs *before* the audited operation
and may raise, which is exactly "the process died / the syscall failed just
before mutating event k".

Only events that name a path under the injector's scope directory are counted, so
interpreter housekeeping (imports, /dev/null, ...) never becomes a crash point.

crash at k      raise SimulatedCrash (a BaseException) before event k and enter
                *dead mode*: every later mutating event in scope raises again, so
                finally:/except:/__del__ clean-up cannot run "after death".  Dead mode
                stays on until the stack has unwound and gc.collect() has run.
                Files opened for writing are cut back to the size they had on disk
                at the crash instant (bytes still in a Python buffer never reached
                the kernel).
torn write at k k must be an open-for-write event: execution continues to the next
                mutating event, the file opened at k is cut to half of what had been
                written, and the crash happens there.
error at k      raise OSError(errno) once at event k, stay alive; the code's own
                error path runs.
crash after k   let operation k complete, then die at the very next Python line executed
                (sys.settrace on every frame of the stack): the crash instant right
                *after* a syscall, e.g. after a rename that published a file whose data
                is still sitting in a Python buffer.  Tracked open-for-write paths
                follow renames, so the cut-back to the on-disk size at the crash instant
                hits the published name.

A crash here is process death with all completed syscalls durable; loss of
un-synced data on power failure is not modelled.
"""

import errno as _errno
import gc
import os
import sys

_WRITE_FLAGS = os.O_WRONLY | os.O_RDWR | os.O_CREAT | os.O_TRUNC | os.O_APPEND

MUTATING = {
    "os.rename",
    "os.remove",
    "os.rmdir",
    "os.mkdir",
    "os.symlink",
    "os.link",
    "os.chmod",
    "os.chown",
    "os.utime",
    "os.truncate",
    "shutil.rmtree",
    "shutil.move",
    "shutil.copyfile",
    "shutil.copytree",
    "shutil.copymode",
    "shutil.copystat",
    "verif.mkfifo",
    "verif.mknod",
    "os.setxattr",
    "os.removexattr",
}
SPAWN = {"subprocess.Popen", "os.posix_spawn", "os.fork", "os.exec", "os.system"}


class SimulatedCrash(BaseException):
    pass


_active = None
_installed = False


def _hook(event, args):
    inj = _active
    if inj is None or inj.bypass:
        return
    if event == "open":
        path, mode, flags = args
        if not isinstance(path, (str, bytes)):
            return
        writing = False
        if isinstance(flags, int) and flags & _WRITE_FLAGS:
            writing = True
        if isinstance(mode, str) and any(c in mode for c in "wxa+"):
            writing = True
        if not writing:
            return
        inj._event("open", (path,), openpath=path)
    elif event in MUTATING:
        inj._event(event, args)
    elif event in SPAWN and inj.count_spawns:
        inj._event(event, (str(args[0])[:80] if args else "",), force=True)


def install():
    global _installed
    if _installed:
        return
    sys.addaudithook(_hook)
    # os.mkfifo / os.mknod are not audited: give them an audit event
    _mkfifo, _mknod = os.mkfifo, os.mknod

    def mkfifo(path, *a, **kw):
        sys.audit("verif.mkfifo", path)
        return _mkfifo(path, *a, **kw)

    def mknod(path, *a, **kw):
        sys.audit("verif.mknod", path)
        return _mknod(path, *a, **kw)

    os.mkfifo, os.mknod = mkfifo, mknod
    _installed = True


def _s(p):
    if isinstance(p, bytes):
        try:
            return p.decode()
        except UnicodeDecodeError:
            return p.decode("latin-1")
    return p


class Injector:
    """One armed run = one execution of fn() with a fault plan."""

    def __init__(self, scope, count_spawns=False):
        install()
        self.scope = os.path.realpath(scope)
        self.count_spawns = count_spawns
        self.bypass = False
        self._reset()

    def _reset(self):
        self.events = []
        self.plan = None  # ("crash", k) | ("torn", k) | ("error", k, errno)
        self.dead = False
        self.crashed_at = None
        self.errored_at = None
        self.open_paths = []  # paths opened for writing, in order
        self.sizes_at_crash = {}
        self.torn_target = None
        self.pending_renames = []
        self.after_armed = False

    def _in_scope(self, args):
        for a in args:
            if isinstance(a, (str, bytes)):
                s = _s(a)
                if not s.startswith("/"):
                    s = os.path.join(os.getcwd(), s)
                if s.startswith(self.scope + "/") or s == self.scope:
                    return True
        return False

    def _rel(self, a):
        if isinstance(a, (str, bytes)):
            s = _s(a)
            if s.startswith(self.scope):
                return s[len(self.scope) :] or "/"
            return s
        return a if isinstance(a, (int, float, type(None))) else repr(a)[:40]

    def _event(self, name, args, openpath=None, force=False):
        if not force and not self._in_scope(args):
            return
        if self.dead:
            raise SimulatedCrash(f"dead: {name}")
        idx = len(self.events)
        self.events.append((name, tuple(self._rel(a) for a in args[:2])))
        plan = self.plan
        if plan is not None:
            kind = plan[0]
            if kind == "crash" and idx == plan[1]:
                self._die(idx)
            elif kind == "torn":
                if idx == plan[1]:
                    self.torn_target = _s(openpath) if openpath is not None else None
                elif idx == plan[1] + 1:
                    self._die(idx, torn=True)
            elif kind == "crash_after" and idx == plan[1]:
                self._arm_after(idx)
            elif kind == "error" and idx == plan[1]:
                self.errored_at = idx
                raise OSError(plan[2], os.strerror(plan[2]) + " (injected)")
            elif kind == "errors" and idx in plan[1]:
                self.errored_at = idx
                raise OSError(plan[2], os.strerror(plan[2]) + " (injected)")
        if openpath is not None:
            self.open_paths.append(_s(openpath))
        if name == "os.rename" and len(args) >= 2:
            # a tracked open-for-write file keeps being tracked under its new name
            src, dst = _s(args[0]), _s(args[1])
            if isinstance(src, str) and isinstance(dst, str) and src in self.open_paths:
                self.pending_renames.append((src, dst))

    def _arm_after(self, idx):
        """Die at the first Python line executed after the current audited operation returns."""
        inj = self

        def tracer(frame, event, arg):
            if inj.after_armed and event in ("line", "return", "call") and not inj.bypass:
                if frame.f_code.co_filename == __file__:
                    return tracer
                inj.after_armed = False
                sys.settrace(None)
                inj._apply_renames()
                inj._die(idx + 1, after=True)
            return tracer

        self.after_armed = True
        f = sys._getframe(1)
        while f is not None:
            f.f_trace = tracer
            f = f.f_back
        sys.settrace(tracer)

    def _apply_renames(self):
        for src, dst in self.pending_renames:
            if not os.path.lexists(src) and os.path.lexists(dst):
                self.open_paths = [dst if p == src else p for p in self.open_paths]
        self.pending_renames = []

    def _die(self, idx, torn=False, after=False):
        self.dead = True
        self.crashed_at = idx
        self.bypass = True
        try:
            self._apply_renames()
            for p in self.open_paths:
                try:
                    self.sizes_at_crash[p] = os.lstat(p).st_size
                except OSError:
                    pass
            if torn and self.torn_target:
                # size visible right now may be 0 if data is still buffered; final cut happens after unwind
                self.sizes_at_crash[self.torn_target] = ("torn", self.sizes_at_crash.get(self.torn_target, 0))
        finally:
            self.bypass = False
        raise SimulatedCrash(f"crash before event {idx}")

    # -- running ---------------------------------------------------------
    def run(self, fn, plan=None):
        """Execute fn() under plan. Returns (status, value) with status in
        'ok', 'crashed', 'raised'. 'crashed' is decided by the injector, not by
        whether the exception propagated (code may swallow BaseException)."""
        global _active
        self._reset()
        self.plan = plan
        status, value = "ok", None
        assert _active is None, "nested injectors"
        _active = self
        old_unraisable = sys.unraisablehook

        def _quiet(u):
            if not isinstance(u.exc_value, SimulatedCrash):
                old_unraisable(u)

        sys.unraisablehook = _quiet
        try:
            try:
                value = fn()
            except SimulatedCrash:
                status = "crashed"
            except Exception as e:  # the code's own error
                status, value = "raised", e
            # late clean-up (__del__, weakref callbacks) happens while still dead
            try:
                gc.collect()
            except SimulatedCrash:
                pass
        finally:
            _active = None
            if self.after_armed:
                self.after_armed = False
            sys.settrace(None)
            sys.unraisablehook = old_unraisable
        if self.crashed_at is not None:
            status = "crashed"
            self._cut_back()
        return status, value

    def _cut_back(self):
        for p, size in self.sizes_at_crash.items():
            try:
                st = os.lstat(p)
            except OSError:
                continue
            import stat as _stat

            if not _stat.S_ISREG(st.st_mode):
                continue
            if isinstance(size, tuple):
                # torn write: keep half of what the code managed to write
                cut = st.st_size // 2
                if st.st_size > 0:
                    os.truncate(p, cut)
            elif st.st_size > size:
                os.truncate(p, size)

    def record(self, fn):
        status, value = self.run(fn, None)
        return status, value, list(self.events)


def is_open_event(ev):
    return ev[0] == "open"


def plans_for(events, crash=True, torn=True, errors=False, errnos=(_errno.EIO,), after=False):
    """All single-fault plans for a recorded fault-free event list."""
    out = []
    n = len(events)
    for k in range(n):
        if crash:
            out.append(("crash", k))
        if after and events[k][0] in ("os.rename", "os.link", "os.symlink"):
            # the instant right after a publishing operation (nothing else audited may follow it)
            out.append(("crash_after", k))
        if torn and is_open_event(events[k]) and k + 1 < n:
            out.append(("torn", k))
        if errors:
            for e in errnos:
                out.append(("error", k, e))
    if crash:
        out.append(("crash", n))  # never fires: the completed run, a sanity anchor
    return out
