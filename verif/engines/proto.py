"""E5 proto: Promela protocol model + two-way conformance with the real Python/bash pair (C35).

Pieces
  source_facts(root)     reply strings read from both sides' source -> -DEQ_* flags of the model
  probe_facts(root)      two behavioural facts measured on the real pair -> -DFAIL_EXTRA / -DSHUTDOWN_KILLS
  ensure_build(...)      spin -a / gcc / pan into /dev/shm, cached by content hash
  trails(...)            `pan -e -c0` on the ENUM build, every trail decoded with `spin -t<k>`
  RealPair               drives a real EbuildProcessor + real bash daemon through one session
  abstract(...)          trace records of the PKGCORE_VERIF_TRACE hook -> model message types
  accepts(...)           implementation -> model: spin on the model constrained to one observed trace

Nothing here judges a property; the check (verif/checks/c35.py) does.
"""

import concurrent.futures
import gc
import hashlib
import json
import os
import re
import shutil
import signal
import subprocess
import sys
import threading
import time
import types

HERE = os.path.dirname(os.path.dirname(os.path.dirname(os.path.abspath(__file__))))
MODEL = os.path.join(HERE, "models", "ebd.pml")
ROOT = os.environ.get("VERIF_PKGCORE_ROOT", "/repo")
SHM = "/dev/shm"

# ------------------------------------------------------------------ facts from the source

PY_SRC = "src/pkgcore/ebuild/processor.py"
SH_SRC = "data/lib/pkgcore/ebd/ebuild-daemon.bash"


def _read(root, rel):
    with open(os.path.join(root, rel)) as f:
        return f.read()


def _func(src, name):
    """Body of method `name` of processor.py (up to the next def at the same or lower indent)."""
    m = re.search(r"^( *)def %s\(.*?(?=^\1(?:def |@)|\Z)" % re.escape(name), src, re.S | re.M)
    return m.group(0) if m else ""


def _case_arm(src, pat):
    """Text of the `case` arm of __ebd_main_loop whose pattern starts with `pat`."""
    loop = src[src.find("__ebd_main_loop()") :]
    m = re.search(r"^\t\t\t%s[^\n]*\)\n(.*?)^\t\t\t\t;;" % pat, loop, re.S | re.M)
    return m.group(1) if m else ""


def source_facts(root=ROOT):
    """(python expects, bash writes) per reply, read from the two source files.

    A string that cannot be located is reported as None and counts as 'differs'."""
    py = _read(root, PY_SRC)
    sh = _read(root, SH_SRC)

    def py_expect(func):
        m = re.search(r"self\.expect\(\s*\"([^\"]*)\"", _func(py, func))
        return m.group(1) if m else None

    def sh_write(arm):
        m = re.search(r"__ebd_write_line \"([^\"]*)\"", arm)
        return m.group(1) if m else None

    phase_loop = sh[sh.find("__ebd_process_ebuild_phases()") : sh.find("__ebd_process_metadata()")]
    m_env = re.search(r"__set_perf_debug\n\t+__ebd_write_line \"([^\"]*)\"", phase_loop)
    pre = _case_arm(sh, r"preload_eclass\\ \*")
    m_pre = re.search(r"success=\"([^\"]*)\"", pre)
    m_pre2 = re.search(r"__ebd_write_line \"preload_eclass \$\{success\}\"", pre)
    pairs = {
        "YEP": (py_expect("is_responsive"), sh_write(_case_arm(sh, "alive"))),
        "PRELOAD": (
            py_expect("_preload_eclass"),
            ("preload_eclass " + m_pre.group(1)) if (m_pre and m_pre2) else None,
        ),
        "CLEAR": (py_expect("clear_preloaded_eclasses"), sh_write(_case_arm(sh, "clear_preloaded_eclasses"))),
        "PATHRCVD": (py_expect("_ensure_metadata_paths"), sh_write(_case_arm(sh, r"set_metadata_path\\ \*"))),
        "ENVRCVD": (py_expect("send_env"), m_env.group(1) if m_env else None),
    }
    return pairs


def eq_flags(pairs):
    return sorted("EQ_" + k for k, (a, b) in pairs.items() if a is not None and a == b)


# ------------------------------------------------------------------ the real pair

HELPER_NAMES = None
BOGUS_D = "verif_bogus_line"
BOGUS_P = "verif_bogus_command"


def _proc_stat(pid):
    try:
        with open(f"/proc/{pid}/stat") as f:
            s = f.read()
        rest = s[s.rindex(")") + 2 :].split()
        return rest[0], int(rest[2])  # state, pgrp
    except (OSError, ValueError):
        return None, None


def _wchan(path):
    try:
        with open(path) as f:
            return f.read().strip()
    except OSError:
        return ""


def _children(pid):
    out = []
    try:
        for tid in os.listdir(f"/proc/{pid}/task"):
            with open(f"/proc/{pid}/task/{tid}/children") as f:
                out += [int(x) for x in f.read().split()]
    except (OSError, ValueError):
        pass
    return out


def _group_members(pgid):
    """Live processes of the daemon's process group: the daemon (group leader) and its descendants.
    (Walks /proc/<pid>/task/*/children instead of scanning all of /proc.)"""
    out, todo = [], [pgid]
    while todo:
        p = todo.pop()
        st, pg = _proc_stat(p)
        if st not in (None, "Z", "X"):
            out.append((p, st))
        todo += _children(p)
    return out


def wait_exited(pid, limit=120.0):
    """Wait until the daemon main process is a zombie or gone (it is *not* reaped here)."""
    t0 = time.time()
    while time.time() - t0 < limit:
        st, _ = _proc_stat(pid)
        if st in (None, "Z", "X"):
            return True
        time.sleep(0.005)
    return False


def _fionread(fd):
    import fcntl
    import struct
    import termios

    try:
        return struct.unpack("i", fcntl.ioctl(fd, termios.FIONREAD, b"\0\0\0\0"))[0]
    except OSError:
        return -1


class _Abort(BaseException):
    """Injected into the main thread after a certified deadlock if the code under test keeps spinning."""


class _StretchedSignal:
    """The `signal` module as seen by pkgcore.ebuild.processor, with interval timers 120x longer."""

    def __getattr__(self, name):
        return getattr(signal, name)

    def setitimer(self, which, seconds, *rest):
        return signal.setitimer(which, seconds * 120 if seconds else 0, *rest)


class RealPair:
    """One scratch area + the machinery to run sessions against a real EbuildProcessor."""

    def __init__(self, tag="C35"):
        import tempfile

        self.base = tempfile.mkdtemp(dir=SHM, prefix=f"verif-{tag}-{os.getpid()}-")
        self.trace_path = os.path.join(self.base, "trace.txt")
        self.eclassdir = os.path.join(self.base, "eclass")
        os.makedirs(self.eclassdir)
        with open(os.path.join(self.eclassdir, "foo.eclass"), "w") as f:
            f.write("foo_fn() { :; }\n")
        self.bad_eclass = os.path.join(self.base, "bad.eclass")
        with open(self.bad_eclass, "w") as f:
            f.write("bad_fn() {\n")
        self.good_eclass = os.path.join(self.eclassdir, "foo.eclass")
        self.devnull = os.open(os.devnull, os.O_RDWR)
        self._n = 0
        self._imports()

    def _imports(self):
        import logging

        logging.getLogger("pkgcore").setLevel(logging.CRITICAL)
        os.environ["PKGCORE_VERIF"] = "1"
        from pkgcore.ebuild import eapi as eapi_mod
        from pkgcore.ebuild import ebd as ebd_mod
        from pkgcore.ebuild import ebd_ipc, eclass_cache, processor
        from pkgcore.test.misc import FakeRepo

        # pkgcore installs a SIGTERM handler that raises SystemExit; in forked pool workers that
        # turns Pool.terminate() into a hang.  This process never relies on it: default action.
        signal.signal(signal.SIGTERM, signal.SIG_DFL)
        if not processor._VERIF_TRACE:
            raise RuntimeError("PKGCORE_VERIF=1 must be exported before pkgcore is imported (use ./vcheck)")
        self.processor, self.ebd_mod, self.ebd_ipc = processor, ebd_mod, ebd_ipc
        self.eapi = eapi_mod.get_eapi("8")
        self.ecache = eclass_cache.cache(self.eclassdir)
        self.FakeRepo = FakeRepo
        # clock seam: is_responsive arms a 10 s wall-clock timer around its read.  The model is
        # untimed (a daemon that is going to answer does answer), so the timer is stretched to keep
        # machine load from firing it in the middle of a reply.
        if not isinstance(processor.signal, _StretchedSignal):
            processor.signal = _StretchedSignal()
        # timing-only seam on the verification hook itself: a SIGTERM notice is handed to
        # pkgcore after the daemon has exited (the other order is excluded, see ASSUMPTIONS)
        if not getattr(processor, "_verif_c35_wrapped", False):
            orig = processor._verif_trace
            pair_ref = self

            def traced(direction, data, _orig=orig):
                _orig(direction, data)
                if direction == ">":
                    # expect(timeout=..) with outstanding async expects never disarms its 10 s
                    # interval timer (reported separately); a timer still armed when the next
                    # command is written is such a leftover.  Wall-clock timers are outside the
                    # untimed model, so the leftover is dropped here.
                    signal.setitimer(signal.ITIMER_REAL, 0)
                cur = getattr(processor, "_verif_c35_pid", None)
                if direction == "<" and cur and data.split(" ", 1)[0].strip() == "SIGTERM":
                    wait_exited(cur)

            processor._verif_trace = traced
            processor._verif_c35_wrapped = True

    def close(self):
        try:
            os.close(self.devnull)
        except OSError:
            pass
        shutil.rmtree(self.base, ignore_errors=True)

    # -- fixtures -------------------------------------------------------------
    def _pkg(self, body):
        self._n += 1
        d = os.path.join(self.base, f"s{self._n}")
        os.makedirs(d)
        path = os.path.join(d, "pkg-1.ebuild")
        with open(path, "w") as f:
            f.write(body)
        return types.SimpleNamespace(
            category="cat", PF="pkg-1", P="pkg-1", PN="pkg", PV="1", PR="r0", PVR="1", eapi=self.eapi,
            ebuild=types.SimpleNamespace(path=path), data={}, use=(), fullslot="0", chost=None, cbuild=None,
            ctarget=None, dir=d,
        )  # fmt: skip

    META_SNIPPET = {
        "inherit": "inherit foo",
        "bogus": f"__ebd_write_line {BOGUS_D}",
        "ok": ":",
        "die": 'die "verif die"',
        "fail1": "echo verif-line1 >&2\nexit 1",
        "fail2": "echo verif-line1 >&2\necho verif-line2 >&2\nexit 1",
    }
    PHASE_SNIPPET = {
        "nfdie": 'nonfatal die -n "verif nonfatal die" || :',
        "ipc_ok": "best_version cat/none",
        "ipc_err": "best_version '<<bad'",
        "bogus": f"__ebd_write_line {BOGUS_D}",
        "killterm": "kill -TERM ${PKGCORE_EBD_PID}",
        "killint": "kill -INT ${PKGCORE_EBD_PID}",
        "die": 'die "verif die"',
        "exit1": "exit 1",
        "ok": ":",
    }

    def meta_ebuild(self, devs):
        lines = ['EAPI=8', 'DESCRIPTION="x"', "SLOT=0"]
        lines += [self.META_SNIPPET[d] for d in devs]
        return "\n".join(lines) + "\n"

    def phase_ebuild(self, devs):
        body = "\n".join("\t" + self.PHASE_SNIPPET[d] for d in devs if d != "envfail") or "\t:"
        return 'EAPI=8\nDESCRIPTION="x"\nSLOT=0\ninherit foo\npkg_setup() {\n' + body + "\n}\n"

    # -- session --------------------------------------------------------------
    def run_session(self, reqs, limit=900.0):
        """reqs: list of (name, [daemon events]).  Returns dict(trace=[(dir, text)], outcomes=[...], deadlock=...)."""
        processor = self.processor
        open(self.trace_path, "w").close()
        os.environ["PKGCORE_VERIF_TRACE"] = self.trace_path
        del processor.active_ebp_list[:]
        del processor.inactive_ebp_list[:]
        ebp = processor.request_ebuild_processor(
            userpriv=False, sandbox=False, fd_pipes={0: self.devnull, 1: self.devnull, 2: self.devnull}
        )
        pid = ebp.pid
        processor._verif_c35_pid = pid
        # the session starts with the daemon waiting in its main loop (start-up is outside the model)
        if not self._wait_idle(ebp, pid, limit=300.0):
            self._cleanup(ebp, pid)
            raise RuntimeError("daemon did not reach its main loop")
        open(self.trace_path, "w").close()
        state = {"deadlock": None, "stop": False, "timeout": False}
        main_tid = threading.main_thread().native_id
        rfd, wfd = ebp.ebd_read.fileno(), ebp.ebd_write.fileno()

        def nrecords():
            with open(self.trace_path) as f:
                return sum(1 for _ in f)

        def watchdog():
            t0 = time.time()
            seen = 0
            while not state["stop"]:
                time.sleep(0.02)
                if time.time() - t0 > limit:
                    state["timeout"] = True
                    try:
                        os.killpg(pid, signal.SIGKILL)
                    except OSError:
                        pass
                    return
                pw = _wchan(f"/proc/self/task/{main_tid}/wchan")
                if pw not in ("do_wait", "anon_pipe_read", "pipe_read", "pipe_wait", "wait_for_partner"):
                    seen = 0
                    continue
                dw = _wchan(f"/proc/{pid}/wchan")
                if dw not in ("anon_pipe_read", "pipe_read", "pipe_wait"):
                    seen = 0
                    continue
                members = _group_members(pid)
                if [p for p, _ in members] != [pid] or members[0][1] != "S":
                    seen = 0
                    continue
                # nothing in flight towards the daemon; towards Python only matters if Python is reading
                if _fionread(wfd) != 0 or (pw != "do_wait" and _fionread(rfd) != 0):
                    seen = 0
                    continue
                seen += 1
                if seen >= 3:
                    # both sides blocked, nothing in flight, nobody else in the daemon's group
                    state["deadlock"] = {"python": "waitpid" if pw == "do_wait" else "read", "daemon": "read", "at": nrecords()}
                    try:
                        os.killpg(pid, signal.SIGKILL)
                    except OSError:
                        pass
                    # Python code that reads on after EOF (chuck_DyingInterrupt waits for "dead" forever)
                    # would spin: once the deadlock is on record, unwind the main thread
                    import ctypes

                    t1 = time.time()
                    while not state["stop"] and time.time() - t1 < 60:
                        time.sleep(1.0)
                        if not state["stop"]:
                            ctypes.pythonapi.PyThreadState_SetAsyncExc(
                                ctypes.c_ulong(threading.main_thread().ident), ctypes.py_object(_Abort)
                            )
                    return

        wd = threading.Thread(target=watchdog, daemon=True)
        wd.start()
        outcomes = []
        try:
            for idx, (name, devs) in enumerate(reqs):
                if ebp.pid is None or state["deadlock"]:
                    break
                try:
                    ret = self._request(ebp, pid, name, devs)
                    outcomes.append([name, "ret", repr(ret)])
                    if ret == "session-over":
                        break
                except BaseException as e:  # KeyboardInterrupt / SystemExit are protocol outcomes here
                    outcomes.append([name, "exc", type(e).__name__])
                    if isinstance(e, processor.ProcessorError) and name in ("genmeta", "genenv") and ebp.pid is not None:
                        continue  # ebuild_src: MetadataException, the processor is released for reuse
                    break
        finally:
            state["stop"] = True
            signal.setitimer(signal.ITIMER_REAL, 0)
            try:
                wd.join()
            except _Abort:
                wd.join()
            import ctypes

            ctypes.pythonapi.PyThreadState_SetAsyncExc(ctypes.c_ulong(threading.main_thread().ident), None)
            processor._verif_c35_pid = None
            with open(self.trace_path) as f:
                raw = f.read().splitlines()
            os.environ.pop("PKGCORE_VERIF_TRACE", None)
            self._cleanup(ebp, pid)
        if state["timeout"]:
            raise RuntimeError(f"session exceeded {limit}s: {reqs}")
        recs = []
        for line in raw:
            recs.append((line[0], eval(line[1:], {"__builtins__": {}})))
        if state["deadlock"]:
            recs = recs[: state["deadlock"]["at"]]
        return {"trace": recs, "outcomes": outcomes, "deadlock": state["deadlock"]}

    def _cleanup(self, ebp, pid):
        processor = self.processor
        signal.setitimer(signal.ITIMER_REAL, 0)
        signal.signal(signal.SIGALRM, signal.SIG_DFL)
        try:
            os.killpg(pid, signal.SIGKILL)
        except OSError:
            pass
        try:
            os.waitpid(pid, 0)
        except OSError:
            pass
        ebp.pid = None
        for f in (ebp.ebd_write, ebp.ebd_read):
            try:
                f.close()
            except (OSError, ValueError):
                pass
        processor.drop_ebuild_processor(ebp)
        gc.collect()

    def _wait_idle(self, ebp, pid, limit=120.0):
        t0 = time.time()
        rfd, wfd = ebp.ebd_read.fileno(), ebp.ebd_write.fileno()
        ok = 0
        while time.time() - t0 < limit:
            if _proc_stat(pid)[0] in (None, "Z", "X"):
                return False  # the daemon is gone (killed from outside?)
            if (
                _wchan(f"/proc/{pid}/wchan") in ("anon_pipe_read", "pipe_read", "pipe_wait")
                and _fionread(wfd) == 0
                and [p for p, _ in _group_members(pid)] == [pid]
            ):
                ok += 1
                if ok >= 2:
                    return True
            else:
                ok = 0
            time.sleep(0.005)
        return False

    def _request(self, ebp, pid, name, devs):
        processor, ebd_mod, ebd_ipc = self.processor, self.ebd_mod, self.ebd_ipc
        if name == "alive":
            r = ebp.is_responsive
            if not r:
                # request_ebuild_processor forgets an unresponsive processor; its __del__ runs
                processor.drop_ebuild_processor(ebp)
                ebp.__del__()
                return "session-over"
            return r
        if name == "preload_ok":
            return ebp._preload_eclass(self.good_eclass, async_req=True)
        if name == "preload_bad":
            return ebp._preload_eclass(self.bad_eclass, async_req=True)
        if name == "clear":
            return ebp.clear_preloaded_eclasses()
        if name == "setpath":
            self._n += 1
            return ebp._ensure_metadata_paths((f"/dev/null/verif{self._n}",))
        if name == "genmeta":
            pkg = self._pkg(self.meta_ebuild(devs))
            return sorted(ebp.get_keys(pkg, self.ecache))
        if name == "genenv":
            pkg = self._pkg(self.meta_ebuild(devs))
            return len(ebp.get_ebuild_environment(pkg, self.ecache)) > 0
        if name == "shutdown":
            return ebp.shutdown_processor()
        if name == "probe_shutdown":
            # leave one unread, non-"yep!" line in the pipe, then shut down
            ebp.write("set_metadata_path 1\nx", append_newline=False)
            if not self._wait_idle(ebp, pid):
                raise RuntimeError("daemon did not become idle")
            return ebp.shutdown_processor()
        if name == "bogus":
            ebp.write(BOGUS_P)
            wait_exited(pid)
            return None
        if name in ("sigterm", "sigint"):
            if not self._wait_idle(ebp, pid):
                raise RuntimeError("daemon did not become idle")
            os.kill(pid, signal.SIGTERM if name == "sigterm" else signal.SIGINT)
            if not wait_exited(pid):
                raise RuntimeError("daemon did not exit on signal")
            return None
        if name == "phase":
            pkg = self._pkg(self.phase_ebuild(devs))
            d = pkg.dir
            env = {}
            for k, sub in (("T", "temp"), ("WORKDIR", "work"), ("D", "image"), ("HOME", "home"), ("PKGCORE_EMPTYDIR", "empty")):
                env[k] = os.path.join(d, sub)
                os.makedirs(env[k])
            env["ED"] = env["D"]
            env["ROOT"] = env["EROOT"] = env["SYSROOT"] = env["ESYSROOT"] = "/"
            env["EPREFIX"] = env["BROOT"] = ""
            env["PKGCORE_PREFIX_SUPPORT"] = "true"
            env["PKGCORE_PKG_REPO"] = "verif"
            env["FEATURES"] = ""
            env["PKGCORE_EAPI_FUNCS"] = " ".join(self.eapi.bash_funcs)
            processor.expected_ebuild_env(pkg, env)
            if "envfail" in devs:
                env["VERIF-BREAK"] = "x"  # `export VERIF-BREAK=x`: not a valid identifier -> the env file evaluates to non-zero
            op = types.SimpleNamespace(
                pkg=pkg, observer=None, env=env, ED=env["ED"],
                domain=types.SimpleNamespace(all_installed_repos=self.FakeRepo(()), root="/"),
            )  # fmt: skip
            handlers = {
                "request_inherit": __import__("functools").partial(processor.inherit_handler, self.ecache),
                "request_bashrcs": lambda e: e.write("end_request"),  # ebd._request_bashrcs with no bashrcs
                "best_version": ebd_ipc.Best_Version(op),
                "has_version": ebd_ipc.Has_Version(op),
                "filter_env": ebd_ipc.FilterEnv(op),
            }
            saved = ebd_mod.request_ebuild_processor, ebd_mod.release_ebuild_processor
            ebd_mod.request_ebuild_processor = lambda **kw: ebp
            ebd_mod.release_ebuild_processor = lambda e: True
            try:
                return ebd_mod.run_generic_phase(
                    pkg, "setup", env, False, False, extra_handlers=handlers, tmpdir=env["T"]
                )
            finally:
                ebd_mod.request_ebuild_processor, ebd_mod.release_ebuild_processor = saved
        raise ValueError(name)


# ------------------------------------------------------------------ abstraction of trace records

EXACT_D = {
    "phases succeeded": "PH_OK",
    "dead": "DEAD",
    "request_bashrcs": "REQ_BASHRCS",
    "SIGTERM": "SIGTERM_N",
    "SIGINT": "SIGINT_N",
    "env_receiving_failed": "ENVFAILED",
    "preload_eclass failed": "PRELOAD_FAILED",
    BOGUS_D: "BOGUSD",
}
IPC_NAMES = ("filter_env", "best_version", "has_version")


def abstract(recs, pairs):
    """[(dir, text)] -> ['> TYPE' | '< TYPE'] in the model's alphabet, canonicalised
    (runs of KEY collapse to one; free-form lines between DYING and DEAD collapse to one TEXT)."""
    replies = {
        "YEP": "YEP_D", "PRELOAD": "PRELOAD_OK_D", "CLEAR": "CLEARED_D", "PATHRCVD": "PATHRCVD_D", "ENVRCVD": "ENVRCVD_D",
    }  # fmt: skip
    bash_text = {v[1]: replies[k] for k, v in pairs.items() if v[1] is not None}
    out = []
    in_die = False
    for d, text in recs:
        first = text.split("\n", 1)[0]
        tok = first.split(" ", 1)[0]
        if d == ">":
            t = {
                "alive": "ALIVE", "preload_eclass": "PRELOAD", "clear_preloaded_eclasses": "CLEAR",
                "set_metadata_path": "SETPATH", "gen_metadata": "GENMETA", "gen_ebuild_env": "GENENV",
                "process_ebuild": "PROCESS", "start_receiving_env": "RECVENV", "set_sandbox_state": "SANDBOX",
                "start_processing": "STARTP", "shutdown_daemon": "SHUTDOWN", BOGUS_P: "BOGUSP", "path": "INHPATH",
                "end_request": "ENDREQ",
            }.get(tok, "TEXTP")  # fmt: skip
            if t in ("ALIVE", "CLEAR", "STARTP", "SHUTDOWN", "INHPATH", "ENDREQ", "BOGUSP") and first != tok:
                t = "TEXTP"
            out.append("> " + t)
            continue
        line = first
        if text == "":
            t = "EOF"
        elif line.strip() in bash_text and not in_die:
            t = bash_text[line.strip()]
        elif line.strip() in EXACT_D and (not in_die or line.strip() == "dead"):
            t = EXACT_D[line.strip()]
        elif in_die:
            t = "TEXT"
        elif tok == "phases" and line.startswith("phases failed"):
            t = "PH_FAIL"
        elif tok == "key":
            t = "KEY"
        elif tok == "receive_env":
            t = "RECEIVE_ENV"
        elif tok == "request_inherit":
            t = "REQ_INHERIT"
        elif tok == "dying":
            t = "DYING"
        elif line.strip() in IPC_NAMES:
            t = "IPC"
        else:
            t = "TEXT"
        if t == "DYING":
            in_die = True
        elif t == "DEAD":
            in_die = False
        if t == "KEY" and out and out[-1] == "< KEY":
            continue
        if t == "TEXT" and in_die and out and out[-1] == "< TEXT":
            continue
        out.append("< " + t)
    return out


# ------------------------------------------------------------------ spin builds

def _sh(cmd, cwd, timeout=3600):
    env = dict(os.environ, TMPDIR=cwd)  # gcc temporaries stay in the tmpfs build directory
    p = subprocess.run(cmd, cwd=cwd, capture_output=True, text=True, timeout=timeout, env=env)
    return p.returncode, p.stdout + p.stderr


def model_hash(defs):
    with open(MODEL, "rb") as f:
        h = hashlib.sha1(f.read())
    h.update(" ".join(defs).encode())
    return h.hexdigest()[:12]


def ensure_build(defs, extra_files=None, tag="b"):
    """Compile the model with -D<defs> into /dev/shm/verif-C35-build-<hash>/ (shared, content-addressed)."""
    key = model_hash(list(defs) + sorted((extra_files or {}).values()))
    d = os.path.join(SHM, f"verif-C35-build-{tag}-{key}")
    ok = os.path.join(d, "BUILD_OK")
    if os.path.exists(ok):
        return d
    tmp = d + f".tmp{os.getpid()}"
    shutil.rmtree(tmp, ignore_errors=True)
    os.makedirs(tmp)
    shutil.copy(MODEL, os.path.join(tmp, "ebd.pml"))
    for name, content in (extra_files or {}).items():
        with open(os.path.join(tmp, name), "w") as f:
            f.write(content)
    dflags = ["-D" + x for x in defs]
    rc, out = _sh(["spin"] + dflags + ["-a", "ebd.pml"], tmp)
    if rc != 0 or not os.path.exists(os.path.join(tmp, "pan.c")):
        raise RuntimeError("spin -a failed:\n" + out[-3000:])
    opt = "-O0" if tag == "obs" else "-O1"  # constrained searches are tiny; compile time dominates
    rc, out = _sh(["gcc", opt, "-w", "-DNOCLAIM", "-DVECTORSZ=2048", "-o", "pan", "pan.c"], tmp)
    if rc != 0:
        raise RuntimeError("gcc pan.c failed:\n" + out[-3000:])
    with open(os.path.join(tmp, "DEFS"), "w") as f:
        f.write(" ".join(dflags))
    open(os.path.join(tmp, "BUILD_OK"), "w").close()
    try:
        os.rename(tmp, d)
    except OSError:
        shutil.rmtree(tmp, ignore_errors=True)  # somebody else finished first
    return d


def pan_stats(out):
    st = {}
    m = re.search(r"(\d+) states, stored", out)
    st["states"] = int(m.group(1)) if m else -1
    m = re.search(r"(\d+) transitions \(", out)
    st["transitions"] = int(m.group(1)) if m else -1
    m = re.search(r"errors: (\d+)", out)
    st["errors"] = int(m.group(1)) if m else -1
    m = re.search(r"depth reached (\d+)", out)
    st["depth"] = int(m.group(1)) if m else -1
    st["complete"] = "Search not completed" not in out and "max search depth too small" not in out and st["states"] >= 0
    return st


def run_safety(defs):
    """Exhaustive search of the model without history.  Returns pan statistics for
    (a) assertion violations only (-E) and (b) invalid end states only (-A)."""
    d = ensure_build(defs, tag="safety")
    res = {}
    for name, flag in (("assert", "-E"), ("deadlock", "-A")):
        rc, out = _sh(["./pan", "-c0", "-m200000", "-n", flag], d)
        res[name] = pan_stats(out)
    return res


def decode_trail(d, k):
    """Replay trail k with the compiled verifier (`pan -r<k> -S` prints only the model's printfs)."""
    rc, out = _sh(["./pan", f"-r{k}", "-S", "-w8", "-m1000"], d, timeout=600)
    names = {int(n): name for name, n in re.findall(r"mtype\s+([A-Z][A-Z_]+):\s+(\d+)", out)}
    ev, reqs, devs, end, viols = [], [], {}, None, []
    for line in out.splitlines():
        line = line.strip()
        if line.startswith("EV "):
            _, dr, n = line.split()
            ev.append(f"{dr} {names[int(n)]}")
        elif line.startswith("REQ "):
            _, n, name = line.split()
            if name != "drop":
                reqs.append((int(n), name))
        elif line.startswith("DEV "):
            _, n, name = line.split()
            devs.setdefault(int(n), []).append(name)
        elif line.startswith("VIOL "):
            f = line.split()
            v = [f[1], int(f[2])] + [names[int(x)] for x in f[3:]]
            if v not in viols:
                viols.append(v)
        elif line.startswith("END "):
            end = dict(kv.split("=") for kv in line[4:].split())
    session = [[name, devs.get(n, [])] for n, name in reqs]
    t = {"k": k, "events": ev, "session": session, "end": end, "deadlock": end is None, "viols": viols}
    if end is None:
        m = re.search(r"proc\s+1 \(Py\)(.*?)(?=\n\s*\d+:\s+proc|\nglobal vars)", out, re.S)
        blk = m.group(1) if m else ""
        t["pyblock"] = "read" if "d2p?" in blk else ("waitpid" if "dstate==2" in blk.replace(" ", "") else "other")
    return t


def trails(defs, jobs=16):
    """Enumerate and decode every history-distinct path of the ENUM build (cached as JSON)."""
    d = ensure_build(list(defs) + ["ENUM"], tag="enum")
    cache = os.path.join(d, "trails.json")
    if os.path.exists(cache):
        with open(cache) as f:
            return json.load(f)
    lock = os.path.join(d, "trails.lock")
    try:
        fd = os.open(lock, os.O_CREAT | os.O_EXCL | os.O_WRONLY)
        os.close(fd)
    except FileExistsError:
        t0 = time.time()
        while not os.path.exists(cache):
            if time.time() - t0 > 3600:
                raise RuntimeError("waiting for trail enumeration by another process timed out")
            time.sleep(0.2)
        with open(cache) as f:
            return json.load(f)
    try:
        for fn in os.listdir(d):
            if fn.endswith(".trail"):
                os.unlink(os.path.join(d, fn))
        rc, out = _sh(["./pan", "-e", "-c0", "-m200000", "-n"], d)
        st = pan_stats(out)
        n = len([fn for fn in os.listdir(d) if fn.endswith(".trail")])
        with concurrent.futures.ThreadPoolExecutor(jobs) as ex:
            decoded = list(ex.map(lambda k: decode_trail(d, k), range(1, n + 1)))
        for fn in os.listdir(d):
            if fn.endswith(".trail"):
                os.unlink(os.path.join(d, fn))
        # one entry per session; several distinct paths for one session = timing the harness cannot
        # control (e.g. Python's is_alive check racing the daemon's exit): the real trace must equal one
        seen = {}
        for t in decoded:
            skey = json.dumps(t["session"])
            key = json.dumps([t["events"], t["end"], t["viols"], t["deadlock"]])
            seen.setdefault(skey, {}).setdefault(key, t)
        uniq, ambiguous = [], []
        for skey, variants in seen.items():
            vs = sorted(variants.values(), key=lambda t: (len(t["events"]), t["k"]))
            first = dict(vs[0])
            first["variants"] = [{k: v[k] for k in ("events", "end", "viols", "deadlock", "pyblock") if k in v} for v in vs]
            uniq.append(first)
            if len(vs) > 1:
                ambiguous.append(first["session"])
        uniq.sort(key=lambda t: (len(t["session"]), len(t["events"]), json.dumps(t["session"])))
        res = {"pan": st, "raw_trails": n, "trails": uniq, "ambiguous": ambiguous}
        tmp = cache + f".tmp{os.getpid()}"
        with open(tmp, "w") as f:
            json.dump(res, f)
        os.replace(tmp, cache)
        return res
    finally:
        try:
            os.unlink(lock)
        except OSError:
            pass


# ------------------------------------------------------------------ facts measured on the real pair

FACT_FILES = (
    "src/pkgcore/ebuild/processor.py", "src/pkgcore/ebuild/ebd.py", "src/pkgcore/ebuild/ebd_ipc.py",
    "data/lib/pkgcore/ebd/ebuild-daemon.bash", "data/lib/pkgcore/ebd/ebuild-daemon-lib.bash",
    "data/lib/pkgcore/ebd/exit-handling.bash", "data/lib/pkgcore/ebd/ebuild.bash",
)  # fmt: skip


def facts(root=ROOT):
    """Reply strings from the source + two behaviours measured on the real pair (cached per source content)."""
    h = hashlib.sha1()
    for rel in FACT_FILES:
        with open(os.path.join(root, rel), "rb") as f:
            h.update(f.read())
    with open(__file__, "rb") as f:
        h.update(f.read())
    cache = os.path.join(SHM, f"verif-C35-facts-{h.hexdigest()[:12]}.json")
    if os.path.exists(cache):
        with open(cache) as f:
            return json.load(f)
    pairs = source_facts(root)
    pair = RealPair()
    try:
        # (1) lines left behind by a metadata run that failed with two lines on stderr
        r = pair.run_session([("genmeta", ["fail2"]), ("alive", [])])
        a = abstract(r["trace"], pairs)
        i = a.index("> ALIVE") if "> ALIVE" in a else None
        if i is None or i + 1 >= len(a):
            raise RuntimeError(f"probe fail_extra: unexpected trace {a}")
        fail_extra = 0 if a[i + 1] == "< YEP_D" else 1
        # (2) does shutdown_processor() kill a daemon whose alive probe is answered by a stale line?
        r = pair.run_session([("probe_shutdown", [])])
        shutdown_kills = 0 if r["deadlock"] else 1
    finally:
        pair.close()
    res = {"pairs": {k: list(v) for k, v in pairs.items()}, "fail_extra": fail_extra, "shutdown_kills": shutdown_kills}
    tmp = cache + f".tmp{os.getpid()}"
    with open(tmp, "w") as f:
        json.dump(res, f)
    os.replace(tmp, cache)
    return res


# ------------------------------------------------------------------ implementation -> model

MTYPES = None


def accepts(observed, defs, nreq):
    """Is the observed Python-side event sequence (list of '> T' / '< T') a behaviour of the model?
    Runs spin on the model constrained to that sequence."""
    n = max(1, len(observed))
    init = []
    for i, e in enumerate(observed):
        d, t = e.split()
        init.append(f"odir[{i}] = {1 if d == '>' else 0}; otyp[{i}] = {t}")
    trace_h = (
        f"#define OBSN {len(observed)}\nbit odir[{n}];\nmtype otyp[{n}];\n#define OBSINIT " + "; ".join(init or ["skip"]) + "\n"
    )
    defs2 = [x for x in defs if not x.startswith("NREQ=") and not x.startswith("FULLREQ=")] + ["OBS", f"NREQ={nreq}"]
    d = ensure_build(defs2, extra_files={"trace.h": trace_h}, tag="obs")
    rc, out = _sh(["./pan", "-E", "-m200000", "-n"], d)
    st = pan_stats(out)
    shutil.rmtree(d, ignore_errors=True)
    return st["errors"] > 0, st
