"""E4: stateless schedule exploration of real threads with iterative preemption bounding.

Every logical thread is a real OS thread gated by its own semaphore (baton);
exactly one runs at a time.  Scheduling points are the synchronisation
operations of the cooperative Queue/Event/Thread/deque stand-ins, and -- in
"fine" mode -- every source line executed in the traced modules (sys.settrace),
which catches unsynchronised read-modify-write sequences as well.

Exploration (CHESS): an execution replays a choice prefix and afterwards always
takes choice 0 (= keep running the current thread if it is enabled, else the
lowest enabled id).  For each later scheduling point every alternative whose
preemption cost stays within the bound is explored recursively.  A preemption is
a switch away from a thread that is still enabled.

A blocked thread (Queue.get on an empty queue, Thread.join on a live thread) is
disabled until its predicate holds; "no enabled thread and not all finished" is
a deadlock; every execution has a step horizon.
"""

import sys
import threading as _real_threading
from collections import deque as _real_deque


class Deadlock(Exception):
    pass


class HorizonExceeded(Exception):
    pass


class ReplayDivergence(Exception):
    pass


class _Abort(BaseException):
    """Raised inside logical threads to unwind them when an execution is torn down."""


class _T:
    def __init__(self, sched, tid, target, args, kwargs, name):
        self.sched = sched
        self.tid = tid
        self.target = target
        self.args = args
        self.kwargs = kwargs
        self.name = name
        self.sem = _real_threading.Semaphore(0)
        self.started = False
        self.finished = False
        self.blocked_on = None
        self.exc = None
        self.os_thread = None

    def enabled(self):
        if not self.started or self.finished:
            return False
        if self.blocked_on is not None:
            return bool(self.blocked_on())
        return True


class Scheduler:
    def __init__(self, prefix=(), horizon=4000, fine_files=()):
        self.prefix = list(prefix)
        self.horizon = horizon
        self.threads = []
        self.current = None
        self.points = []  # (enabled_ids_in_canonical_order, chosen_index, current_still_enabled)
        self.deadlock = False
        self.abort = False
        self.fine_files = tuple(fine_files)
        self.main_done = _real_threading.Semaphore(0)
        self.error = None

    # -- thread plumbing ---------------------------------------------------
    def _new_thread(self, target, args=(), kwargs=None, name=None):
        t = _T(self, len(self.threads), target, args, kwargs or {}, name or f"t{len(self.threads)}")
        self.threads.append(t)
        return t

    def _bootstrap(self, t):
        t.sem.acquire()
        if self.fine_files:
            sys.settrace(self._tracer)
        try:
            if not self.abort:
                t.target(*t.args, **t.kwargs)
        except _Abort:
            pass
        except BaseException as e:  # worker died with an exception: recorded, thread ends
            t.exc = e
        finally:
            sys.settrace(None)
            t.finished = True
            if not self.abort:
                try:
                    self._switch_from_finished(t)
                except _Abort:
                    pass

    def _tracer(self, frame, event, arg):
        if event == "call":
            fn = frame.f_code.co_filename
            if fn.endswith(self.fine_files):
                return self._line_tracer
            return None
        return None

    def _line_tracer(self, frame, event, arg):
        if event == "line":
            self.point("line")
        return self._line_tracer

    def _start_os(self, t):
        t.started = True
        th = _real_threading.Thread(target=self._bootstrap, args=(t,), daemon=True)
        t.os_thread = th
        th.start()

    # -- choice ------------------------------------------------------------
    def _choose(self, cur):
        """Return the thread to run next. cur may be None/finished/blocked."""
        cur_enabled = cur is not None and cur.enabled()
        enabled = [t for t in self.threads if t.enabled()]
        if not enabled:
            return None, cur_enabled
        order = []
        if cur_enabled:
            order.append(cur)
        order += [t for t in enabled if t is not cur]
        idx = len(self.points)
        if idx >= self.horizon:
            self.error = HorizonExceeded(f"more than {self.horizon} scheduling points")
            self._teardown()
            raise _Abort()
        if len(order) == 1:
            # forced move: not a choice point (keeps choice sequences short)
            return order[0], cur_enabled
        if idx < len(self.prefix):
            c = self.prefix[idx]
            if c >= len(order):
                self.error = ReplayDivergence(f"choice {c} at point {idx} but only {len(order)} enabled")
                self._teardown()
                raise _Abort()
        else:
            c = 0
        self.points.append(([t.tid for t in order], c, cur_enabled))
        return order[c], cur_enabled

    def point(self, label=""):
        """Scheduling point of the running thread."""
        cur = self.current
        if self.abort:
            raise _Abort()
        nxt, _ = self._choose(cur)
        if nxt is None:
            self._deadlock()
        if nxt is not cur:
            self._handoff(cur, nxt)

    def block(self, pred):
        """The running thread cannot continue until pred() holds."""
        cur = self.current
        while not pred():
            if self.abort:
                raise _Abort()
            cur.blocked_on = pred
            nxt, _ = self._choose(cur)
            if nxt is None:
                self._deadlock()
            self._handoff(cur, nxt)
            cur.blocked_on = None

    def _handoff(self, cur, nxt):
        self.current = nxt
        nxt.sem.release()
        cur.sem.acquire()
        if self.abort:
            raise _Abort()

    def _switch_from_finished(self, t):
        if all(x.finished for x in self.threads if x.started):
            self.main_done.release()
            return
        nxt, _ = self._choose(None)
        if nxt is None:
            self.deadlock = True
            self._teardown()
            return
        self.current = nxt
        nxt.sem.release()

    def _deadlock(self):
        self.deadlock = True
        self._teardown()
        raise _Abort()

    def _teardown(self):
        self.abort = True
        for t in self.threads:
            if t.started and not t.finished:
                t.sem.release()
        self.main_done.release()

    # -- running -----------------------------------------------------------
    def run(self, main, timeout=20.0):
        """Run main() as logical thread 0 to completion under this scheduler."""
        t0 = self._new_thread(main, name="main")
        self.current = t0
        self._start_os(t0)
        t0.sem.release()
        ok = self.main_done.acquire(timeout=timeout)
        if not ok:
            self.error = self.error or HorizonExceeded("wall-clock timeout: execution did not finish")
            self._teardown()
        for t in self.threads:
            if t.os_thread is not None:
                t.os_thread.join(timeout=2.0)
        return t0

    @property
    def choices(self):
        return [p[1] for p in self.points]


# -- cooperative stand-ins -------------------------------------------------------
def make_namespace(sched):
    """Returns (threading_like, queue_like, deque_like) bound to sched."""

    class Thread:
        def __init__(self, target=None, args=(), kwargs=None, name=None, daemon=None, group=None):
            self._t = sched._new_thread(target, args, kwargs, name)

        def start(self):
            sched._start_os(self._t)
            sched.point("start")

        def join(self, timeout=None):
            sched.point("join")
            t = self._t
            sched.block(lambda: t.finished)

        def is_alive(self):
            return self._t.started and not self._t.finished

    class Event:
        def __init__(self):
            self._flag = False

        def set(self):
            sched.point("event.set")
            self._flag = True

        def clear(self):
            self._flag = False

        def is_set(self):
            sched.point("event.is_set")
            return self._flag

        isSet = is_set

        def wait(self, timeout=None):
            sched.point("event.wait")
            sched.block(lambda: self._flag)
            return True

    class Queue:
        def __init__(self, maxsize=0):
            self._items = _real_deque()
            self.maxsize = maxsize

        def put(self, item, block=True, timeout=None):
            sched.point("put")
            if self.maxsize > 0:
                sched.block(lambda: len(self._items) < self.maxsize)
            self._items.append(item)

        def get(self, block=True, timeout=None):
            sched.point("get")
            sched.block(lambda: len(self._items) > 0)
            return self._items.popleft()

        def empty(self):
            sched.point("empty")
            return not self._items

        def qsize(self):
            sched.point("qsize")
            return len(self._items)

    class Lock:
        def __init__(self):
            self._held = False

        def acquire(self, blocking=True, timeout=-1):
            sched.point("lock.acquire")
            sched.block(lambda: not self._held)
            self._held = True
            return True

        def release(self):
            self._held = False
            sched.point("lock.release")

        __enter__ = acquire

        def __exit__(self, *a):
            self.release()

    class deque(_real_deque):
        def append(self, x):
            sched.point("append")
            _real_deque.append(self, x)

        def extend(self, it):
            for x in it:
                sched.point("extend")
                _real_deque.append(self, x)

    class _NS:
        pass

    th, qu = _NS(), _NS()
    th.Thread, th.Event, th.Lock, th.RLock = Thread, Event, Lock, Lock
    qu.Queue = Queue
    qu.Empty = Exception
    return th, qu, deque


def explore(run_one, bound, root_prefix=(), stats=None, on_exec=None, max_execs=None):
    """Depth-first CHESS exploration.  run_one(prefix) -> (points, outcome) where points is the
    scheduler's recorded choice points.  Children of an execution are every alternative at
    every point at or after len(prefix) whose preemption cost is within bound."""
    stats = stats if stats is not None else {}
    stats.setdefault("execs", 0)
    stack = [list(root_prefix)]
    while stack:
        prefix = stack.pop()
        points, outcome = run_one(prefix)
        stats["execs"] += 1
        if on_exec is not None:
            on_exec(prefix, points, outcome)
        if max_execs and stats["execs"] >= max_execs:
            stats["capped"] = True
            return stats
        for child in children(prefix, points, bound):
            stack.append(child)
    return stats


def children(prefix, points, bound):
    out = []
    choices = [p[1] for p in points]
    # preemptions used before point i
    cost = 0
    costs = []
    for order, c, cur_enabled in points:
        costs.append(cost)
        if cur_enabled and c != 0:
            cost += 1
    for i in range(len(prefix), len(points)):
        order, c, cur_enabled = points[i]
        base = costs[i]
        for alt in range(1, len(order)):
            extra = 1 if cur_enabled else 0
            if base + extra > bound:
                continue
            out.append(choices[:i] + [alt])
    return out
