"""E4: stateless schedule exploration of real threads with iterative preemption bounding.

Every logical thread is a real OS thread gated by its own semaphore (baton);
exactly one runs at a time.  Scheduling points are the synchronisation
operations of the cooperative Queue/Event/Thread/deque stand-ins, and -- in
"fine" mode -- every source line executed in the traced modules (sys.settrace),
which catches unsynchronised read-modify-write sequences as well.

Exploration (CHESS): an execution replays a choice prefix and afterwards always
takes choice 0 (= keep running the current thread if it is enabled, else the
lowest enabled id).  For each later scheduling point every alternative whose
preemption cost stays within the bound is explored recursively.  A preemption is
a switch away from a thread that is still enabled.

A blocked thread (Queue.get on an empty queue, Thread.join on a live thread) is
disabled until its predicate holds; "no enabled thread and not all finished" is
a deadlock; every execution has a step horizon.

Timers: a blocking call made with a timeout (Queue.get(timeout=..), Event.wait(t),
join(t)) may also end because its timer fires first.  A timer landing before the
awaited event is a *deviation* from the default environment answer; at most
``timer_bound`` timers fire per execution and each one counts like a preemption
against the exploration bound, so polling loops cannot make the space cyclic.
"""

import queue as _real_queue
import sys
import threading as _real_threading
from collections import deque as _real_deque


class Deadlock(Exception):
    pass


class HorizonExceeded(Exception):
    pass


class ReplayDivergence(Exception):
    pass


class WallClockTimeout(Exception):
    """The OS did not schedule the baton threads within the (very generous) wall-clock limit: an engine
    condition (overloaded machine), never a property verdict."""


class _Abort(BaseException):
    """Raised inside logical threads to unwind them when an execution is torn down."""


class _T:
    def __init__(self, sched, tid, target, args, kwargs, name):
        self.sched = sched
        self.tid = tid
        self.target = target
        self.args = args
        self.kwargs = kwargs
        self.name = name
        self.sem = _real_threading.Semaphore(0)
        self.started = False
        self.finished = False
        self.blocked_on = None
        self.timed = False
        self.exc = None
        self.os_thread = None

    def enabled(self):
        if not self.started or self.finished:
            return False
        if self.blocked_on is not None:
            if self.blocked_on():
                return True
            # a timed wait may also end through its timer (bounded deviation)
            return self.timed and self.sched.timers_fired < self.sched.timer_bound
        return True


class Scheduler:
    def __init__(self, prefix=(), horizon=4000, fine_files=(), timer_bound=1):
        self.timer_bound = timer_bound
        self.timers_fired = 0
        self.prefix = list(prefix)
        self.horizon = horizon
        self.threads = []
        self.current = None
        self.points = []  # (enabled_ids_in_canonical_order, chosen_index, current_still_enabled)
        self.deadlock = False
        self.abort = False
        self.fine_files = tuple(fine_files)
        self.main_done = _real_threading.Semaphore(0)
        self.error = None

    # -- thread plumbing ---------------------------------------------------
    def _new_thread(self, target, args=(), kwargs=None, name=None):
        t = _T(self, len(self.threads), target, args, kwargs or {}, name or f"t{len(self.threads)}")
        self.threads.append(t)
        return t

    def _bootstrap(self, t):
        t.sem.acquire()
        if self.fine_files:
            sys.settrace(self._tracer)
        try:
            if not self.abort:
                t.target(*t.args, **t.kwargs)
        except _Abort:
            pass
        except BaseException as e:  # worker died with an exception: recorded, thread ends
            t.exc = e
        finally:
            sys.settrace(None)
            t.finished = True
            if not self.abort:
                try:
                    self._switch_from_finished(t)
                except _Abort:
                    pass

    def _tracer(self, frame, event, arg):
        if event == "call":
            fn = frame.f_code.co_filename
            if fn.endswith(self.fine_files):
                return self._line_tracer
            return None
        return None

    def _line_tracer(self, frame, event, arg):
        if event == "line":
            self.point("line")
        return self._line_tracer

    def _start_os(self, t):
        t.started = True
        th = _real_threading.Thread(target=self._bootstrap, args=(t,), daemon=True)
        t.os_thread = th
        th.start()

    # -- choice ------------------------------------------------------------
    def _choose(self, cur):
        """Return the thread to run next. cur may be None/finished/blocked.
        Canonical order of the alternatives: the running thread if it can continue, the other ready threads
        by ascending id, then the threads that could only continue because their timer fires (deviations)."""

        def ready(t):
            return t.started and not t.finished and (t.blocked_on is None or bool(t.blocked_on()))

        def timer_only(t):
            return (
                t.started
                and not t.finished
                and t.blocked_on is not None
                and t.timed
                and not t.blocked_on()
                and self.timers_fired < self.timer_bound
            )

        cur_ready = cur is not None and ready(cur)
        normal = [t for t in self.threads if ready(t) and t is not cur]
        timers = [t for t in self.threads if timer_only(t)]
        order = ([cur] if cur_ready else []) + normal + timers
        if not order:
            return None, cur_ready
        idx = len(self.points)
        if idx >= self.horizon:
            self.error = HorizonExceeded(f"more than {self.horizon} scheduling points")
            self._teardown()
            raise _Abort()
        if len(order) == 1:
            # forced move: not a choice point (keeps choice sequences short)
            return order[0], cur_ready
        if idx < len(self.prefix):
            c = self.prefix[idx]
            if c >= len(order):
                self.error = ReplayDivergence(f"choice {c} at point {idx} but only {len(order)} enabled")
                self._teardown()
                raise _Abort()
        else:
            c = 0
        nfree = (1 if cur_ready else 0) + len(normal)
        costs = []
        for i, t in enumerate(order):
            if i >= nfree:
                costs.append(0 if nfree == 0 and i == 0 else 1)  # a timer firing although someone could run
            elif cur_ready and i != 0:
                costs.append(1)  # preemption of a thread that could continue
            else:
                costs.append(0)
        self.points.append(([t.tid for t in order], c, cur_ready, costs))
        return order[c], cur_ready

    def point(self, label=""):
        """Scheduling point of the running thread."""
        cur = self.current
        if self.abort:
            raise _Abort()
        nxt, _ = self._choose(cur)
        if nxt is None:
            self._deadlock()
        if nxt is not cur:
            self._handoff(cur, nxt)

    def block(self, pred, timed=False):
        """The running thread cannot continue until pred() holds.  With timed=True the wait may also
        end because its timer fires (returns False then); returns True when pred() holds."""
        cur = self.current
        while not pred():
            if self.abort:
                raise _Abort()
            cur.blocked_on = pred
            cur.timed = timed
            nxt, _ = self._choose(cur)
            if nxt is None:
                cur.blocked_on = None
                cur.timed = False
                self._deadlock()
            if nxt is cur:
                # chosen although the awaited event has not happened: the timer fired
                cur.blocked_on = None
                cur.timed = False
                self.timers_fired += 1
                return False
            self._handoff(cur, nxt)
            cur.blocked_on = None
            cur.timed = False
        return True

    def _handoff(self, cur, nxt):
        self.current = nxt
        nxt.sem.release()
        cur.sem.acquire()
        if self.abort:
            raise _Abort()

    def _switch_from_finished(self, t):
        if all(x.finished for x in self.threads if x.started):
            self.main_done.release()
            return
        nxt, _ = self._choose(None)
        if nxt is None:
            self.deadlock = True
            self._teardown()
            return
        self.current = nxt
        nxt.sem.release()

    def _deadlock(self):
        self.deadlock = True
        self._teardown()
        raise _Abort()

    def _teardown(self):
        self.abort = True
        for t in self.threads:
            if t.started and not t.finished:
                t.sem.release()
        self.main_done.release()

    # -- running -----------------------------------------------------------
    def run(self, main, timeout=600.0):
        """Run main() as logical thread 0 to completion under this scheduler."""
        t0 = self._new_thread(main, name="main")
        self.current = t0
        self._start_os(t0)
        t0.sem.release()
        ok = self.main_done.acquire(timeout=timeout)
        if not ok:
            self.error = self.error or WallClockTimeout("wall-clock timeout: execution did not finish (harness timing, not a verdict)")
            self._teardown()
        for t in self.threads:
            if t.os_thread is not None:
                t.os_thread.join(timeout=2.0)
        return t0

    @property
    def choices(self):
        return [p[1] for p in self.points]


# -- cooperative stand-ins -------------------------------------------------------
def make_namespace(sched):
    """Returns (threading_like, queue_like, deque_like) bound to sched."""

    class Thread:
        def __init__(self, target=None, args=(), kwargs=None, name=None, daemon=None, group=None):
            self._t = sched._new_thread(target, args, kwargs, name)

        def start(self):
            sched._start_os(self._t)
            sched.point("start")

        def join(self, timeout=None):
            sched.point("join")
            t = self._t
            sched.block(lambda: t.finished, timed=timeout is not None)

        def is_alive(self):
            return self._t.started and not self._t.finished

    class Event:
        def __init__(self):
            self._flag = False

        def set(self):
            sched.point("event.set")
            self._flag = True

        def clear(self):
            self._flag = False

        def is_set(self):
            sched.point("event.is_set")
            return self._flag

        isSet = is_set

        def wait(self, timeout=None):
            sched.point("event.wait")
            return sched.block(lambda: self._flag, timed=timeout is not None)

    class Queue:
        def __init__(self, maxsize=0):
            self._items = _real_deque()
            self.maxsize = maxsize

        def put(self, item, block=True, timeout=None):
            sched.point("put")
            if self.maxsize > 0:
                sched.block(lambda: len(self._items) < self.maxsize)
            self._items.append(item)

        def get(self, block=True, timeout=None):
            sched.point("get")
            if not block:
                if not self._items:
                    raise _real_queue.Empty
                return self._items.popleft()
            if not sched.block(lambda: len(self._items) > 0, timed=timeout is not None):
                raise _real_queue.Empty
            return self._items.popleft()

        def empty(self):
            sched.point("empty")
            return not self._items

        def qsize(self):
            sched.point("qsize")
            return len(self._items)

    class Lock:
        def __init__(self):
            self._held = False

        def acquire(self, blocking=True, timeout=-1):
            sched.point("lock.acquire")
            sched.block(lambda: not self._held)
            self._held = True
            return True

        def release(self):
            self._held = False
            sched.point("lock.release")

        __enter__ = acquire

        def __exit__(self, *a):
            self.release()

    class deque(_real_deque):
        def append(self, x):
            sched.point("append")
            _real_deque.append(self, x)

        def extend(self, it):
            for x in it:
                sched.point("extend")
                _real_deque.append(self, x)

    class _NS:
        pass

    th, qu = _NS(), _NS()
    th.Thread, th.Event, th.Lock, th.RLock = Thread, Event, Lock, Lock
    qu.Queue = Queue
    qu.Empty = _real_queue.Empty
    qu.Full = _real_queue.Full
    return th, qu, deque


def explore(run_one, bound, root_prefix=(), stats=None, on_exec=None, max_execs=None):
    """Depth-first CHESS exploration.  run_one(prefix) -> (points, outcome) where points is the
    scheduler's recorded choice points.  Children of an execution are every alternative at
    every point at or after len(prefix) whose preemption cost is within bound."""
    stats = stats if stats is not None else {}
    stats.setdefault("execs", 0)
    stack = [list(root_prefix)]
    while stack:
        prefix = stack.pop()
        points, outcome = run_one(prefix)
        stats["execs"] += 1
        if on_exec is not None:
            on_exec(prefix, points, outcome)
        if max_execs and stats["execs"] >= max_execs:
            stats["capped"] = True
            return stats
        for child in children(prefix, points, bound):
            stack.append(child)
    return stats


def children(prefix, points, bound):
    out = []
    choices = [p[1] for p in points]
    used = 0
    before = []
    for order, c, cur_enabled, costs in points:
        before.append(used)
        used += costs[c]
    for i in range(len(prefix), len(points)):
        order, c, cur_enabled, costs = points[i]
        for alt in range(1, len(order)):
            if before[i] + costs[alt] > bound:
                continue
            out.append(choices[:i] + [alt])
    return out
