"""A9 filesystem snapshot: a recursive lstat map of a scratch tree, plus comparison helpers.

Shared by the real-filesystem checks (C18-C21, C25, C29, C47).  Plain os calls only; never
imports pkgcore.  Symlinks are never followed.

    snap = snapshot(root)              # {"/": Ent, "/d": Ent, "/d/f": Ent, ...}  keys relative to root
    diff(before, after)                # list[str] of human-readable differences
    groups(snap)                       # set of frozensets: paths sharing an inode (hardlink groups, size >= 2)

Ent fields
    kind    "file" | "dir" | "sym" | "fifo" | "chr" | "blk" | "sock"
    mode    st_mode & 0o7777
    uid, gid
    mtime   int(st_mtime) for non-directories, None for directories (a directory's mtime changes whenever an
            entry is created or removed inside it, so it is never compared)
    size    st_size for regular files, else None
    data    file content decoded as latin-1 when <= DATA_INLINE bytes, else "sha1:<hex>"; None for non-files
    target  readlink() for symlinks, else None
    group   smallest path (within this snapshot) sharing (st_dev, st_ino) with this regular file, the
            file's own path when its inode is not shared; None for non-files
"""

import hashlib
import os
import stat
from collections import namedtuple

DATA_INLINE = 256

Ent = namedtuple("Ent", "kind mode uid gid mtime size data target group")

_KINDS = (
    (stat.S_ISREG, "file"),
    (stat.S_ISDIR, "dir"),
    (stat.S_ISLNK, "sym"),
    (stat.S_ISFIFO, "fifo"),
    (stat.S_ISCHR, "chr"),
    (stat.S_ISBLK, "blk"),
    (stat.S_ISSOCK, "sock"),
)


def kind_of(st_mode):
    for pred, name in _KINDS:
        if pred(st_mode):
            return name
    return "other"


def read_data(path):
    with open(path, "rb") as f:
        b = f.read()
    if len(b) <= DATA_INLINE:
        return b.decode("latin-1")
    return "sha1:" + hashlib.sha1(b).hexdigest()


def entry(path, st=None):
    """Ent for one path (group left as None: it needs the whole snapshot)."""
    if st is None:
        st = os.lstat(path)
    kind = kind_of(st.st_mode)
    return Ent(
        kind,
        stat.S_IMODE(st.st_mode),
        st.st_uid,
        st.st_gid,
        None if kind == "dir" else int(st.st_mtime),
        st.st_size if kind == "file" else None,
        read_data(path) if kind == "file" else None,
        os.readlink(path) if kind == "sym" else None,
        None,
    )


def snapshot(root):
    """Recursive lstat map of everything at and below root ("/" is root itself). {} if root does not exist."""
    root = root.rstrip("/") or "/"
    out = {}
    inodes = {}
    try:
        st = os.lstat(root)
    except FileNotFoundError:
        return out
    stack = [("/", root, st)]
    while stack:
        rel, full, st = stack.pop()
        e = entry(full, st)
        out[rel] = e
        if e.kind == "file":
            inodes.setdefault((st.st_dev, st.st_ino), []).append(rel)
        elif e.kind == "dir":
            for name in sorted(os.listdir(full), reverse=True):
                cfull = os.path.join(full, name)
                crel = ("" if rel == "/" else rel) + "/" + name
                stack.append((crel, cfull, os.lstat(cfull)))
    for paths in inodes.values():
        g = min(paths)
        for p in paths:
            out[p] = out[p]._replace(group=g)
    return out


def groups(snap, restrict=None):
    """Hardlink groups (>= 2 members) as a set of frozensets; restrict = only consider these paths."""
    by = {}
    for p, e in snap.items():
        if e.kind != "file" or (restrict is not None and p not in restrict):
            continue
        by.setdefault(e.group, set()).add(p)
    # group ids are min-paths of the unrestricted group; members restricted
    return {frozenset(v) for v in by.values() if len(v) >= 2}


def same(a, b, ignore=("group",)):
    """Two Ents equal, ignoring the named fields (directory mtimes are already None)."""
    if a is None or b is None:
        return a is b
    for f in Ent._fields:
        if f in ignore:
            continue
        if getattr(a, f) != getattr(b, f):
            return False
    return True


def describe(e):
    if e is None:
        return "<absent>"
    bits = [e.kind, oct(e.mode), f"{e.uid}:{e.gid}"]
    if e.mtime is not None:
        bits.append(f"mtime={e.mtime}")
    if e.kind == "file":
        bits.append(f"data={e.data!r}")
    if e.kind == "sym":
        bits.append(f"->{e.target!r}")
    return "(" + " ".join(bits) + ")"


def diff(before, after, ignore=("group",), only=None, skip=()):
    """Differences between two snapshots, as messages.  only: restrict to these paths; skip: paths not compared."""
    msgs = []
    for p in sorted(set(before) | set(after)):
        if only is not None and p not in only:
            continue
        if p in skip:
            continue
        a, b = before.get(p), after.get(p)
        if a is None:
            msgs.append(f"created {p} {describe(b)}")
        elif b is None:
            msgs.append(f"removed {p} {describe(a)}")
        elif not same(a, b, ignore):
            msgs.append(f"changed {p} {describe(a)} -> {describe(b)}")
    return msgs


def to_jsonable(snap):
    return {p: list(e) for p, e in sorted(snap.items())}
