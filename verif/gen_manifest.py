"""Regenerate /verif/MANIFEST.json from the check modules present (run: /venv/bin/python -m verif.gen_manifest)."""
import importlib, json, os, glob, subprocess

HERE = os.path.dirname(os.path.dirname(os.path.abspath(__file__)))
props = [json.loads(l) for l in open(os.path.join(HERE, "properties.jsonl"))]
ENGINES = [
    {"name": "enum", "path": "verif/run.py", "serves_properties": [], "kind_free_text": "E1 exhaustive bounded input enumeration of the real code against a reference model, partitioned over worker processes"},
    {"name": "bfs", "path": "verif/engines/bfs.py", "serves_properties": [], "kind_free_text": "E2 explicit-state breadth-first search over operation histories of real objects with exact canonical state hashing"},
    {"name": "faults", "path": "verif/engines/faults.py", "serves_properties": [], "kind_free_text": "E3 crash-point / torn-write / EIO enumeration on the real write path via a CPython audit hook with dead mode"},
    {"name": "sched", "path": "verif/engines/sched.py", "serves_properties": [], "kind_free_text": "E4 stateless schedule exploration of real threads under a cooperative scheduler with iterative preemption bounding"},
    {"name": "proto", "path": "verif/engines/proto.py", "serves_properties": [], "kind_free_text": "E5 Promela protocol model explored by spin, all trails replayed against the real Python/bash pair, real traces accepted by the model"},
]
checks, na = [], []
hook_commits = []
hc = os.path.join(HERE, "hook_commits.txt")
if os.path.exists(hc):
    hook_commits = [l.split()[0] for l in open(hc) if l.strip()]
for p in props:
    pid = p["id"]
    path = os.path.join(HERE, "verif", "checks", pid.lower() + ".py")
    claimed = set(open(os.path.join(HERE, "verif", "claimed.txt")).read().split())
    if not os.path.exists(path) or pid not in claimed:
        reason = "no check registered yet (under construction); not claimed"
        nafile = os.path.join(HERE, "verif", "checks", pid.lower() + ".na")
        if os.path.exists(nafile):
            reason = open(nafile).read().strip()
        na.append({"property_id": pid, "reason": reason})
        continue
    src = open(path).read()
    ns = {}
    # read metadata constants without importing pkgcore
    mod = importlib.import_module("verif.checks." + pid.lower())
    eng = getattr(mod, "ENGINE", "enum")
    for e in ENGINES:
        if e["name"] == eng or e["name"] in getattr(mod, "ENGINES", ()):
            e["serves_properties"].append(pid)
    c = {
        "property_id": pid,
        "quick_cmd": f"./vcheck {pid} --tier quick",
        "thorough_cmd": f"./vcheck {pid} --tier thorough",
        "evidence_file": f"/verif/evidence/{pid}.json",
        "replay_cmd_template": f"./vcheck {pid} --replay {{path}}",
        "engine": eng,
        "level_claimed": {
            "category": mod.LEVEL,
            "text": getattr(mod, "LEVEL_TEXT", "Bounded exhaustive: every case of the stated finite alphabet/bound is executed on the real pkgcore code and judged by an independent reference model; nothing is sampled. " + mod.RULE),
            "design_ref": f"DESIGN.md section 3, {pid}",
        },
        "level_note": getattr(mod, "LEVEL_NOTE", "Trusted base: the reference model/oracle in the check module, CPython, the stated alphabet and bounds (see evidence 'bounds' and 'assumptions'). Nothing is claimed outside the bound."),
        "technique": getattr(mod, "TECHNIQUE", "bounded exhaustive enumeration of inputs on the real implementation vs reference model (small-scope model checking)"),
    }
    checks.append(c)
man = {
    "version": 1,
    "setup_cmd": "./setup.sh",
    "hooks": {
        "guard": "PKGCORE_VERIF",
        "enable": "environment variable PKGCORE_VERIF=1 (exported by ./vcheck); pkgcore is imported from /repo/src, no build step",
        "baseline_off_cmd": "cd /repo && env -u PKGCORE_VERIF -u PKGCORE_VERIF_TRACE /venv/bin/python -m pytest -ra -q -p no:cacheprovider --timeout=900 --continue-on-collection-errors",
        "source_commits": hook_commits,
        "add_only": True,
    },
    "engines": [e for e in ENGINES if e["serves_properties"]],
    "checks": checks,
    "not_applicable": na,
    "notes": "All checks: ./vcheck <id> [--tier quick|thorough] [--replay path]. VERIF_SEED only rotates visiting order. Genuine defects: known_findings.json (kind=finding suppressed narrowly, kind=fixed repaired by fix: commits in /repo).",
}
json.dump(man, open(os.path.join(HERE, "MANIFEST.json"), "w"), indent=1)
print(len(checks), "checks,", len(na), "not claimed")
