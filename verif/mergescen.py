"""Scenario alphabet, builders and reference model shared by C18 (merge places exactly the contents)
and C19 (interrupted merge).  Plain Python + os calls; pkgcore is only used to *hold* the contents set
handed to merge_contents (make_cset) -- the model below never consults pkgcore.

A scenario is a small JSON-able dict

    {"tree": {"F": "A", "G": "sx"},      non-directory slot -> entry kind (the package contents)
     "dirs": "listed" | "omitted",        are the parent directories D/E entries of the contents set?
     "pre":  {"D": "dir", "F": "file"},   slot -> state of the live root before the merge (absent slots omitted)
     "off":  "off" | "pre" | "new",       explicit offset / locations prefixed, offset None / offset dir missing
     "ord":  "asc" | "desc"}              iteration order of the contents set

Slots (one name with a space, one non-ASCII directory):
    D=/d  F=/d/f  G="/d/g h"  E=/é  H=/é/h  L=/l
Entry kinds:
    A  regular file; every A entry of one tree is the same source inode (a hardlink group)
    B  regular file, other content, same metadata and inode *number* as A but another st_dev (must not be linked to A)
    C  regular file, set-uid mode, other owner/mtime, its own inode (several C's = another hardlink group)
    N / P / Q  regular files built by hand with dev and inode unset (what fsFile defaults to for non-scanned entries):
       N and P have A's metadata and different data (P's data is an in-memory data source), Q has N's data and
       another mtime; no two of them -- not even two N's -- were declared hardlinked
    sf / sd / sx   symlink to a file / to a directory / dangling
    ff fifo
    dir  (slot L only) an empty directory entry
Live pre-states of a non-directory slot:
    file (hardlinked with the bystander /u2, longer than any new content), file+stale (same plus an unrelated
    sibling "<name>#new"), symf (symlink to bystander file /u), symd (symlink to bystander dir /x), dang, fifo,
    dir (a directory holding a file z), dirx (the same, and additionally the path "<slot>/<sd target>" resolves to a
    directory: the one shape in which merge_contents tolerates a symlink entry over a real directory and carries on)
Live pre-states of a directory slot D/E:
    dir (odd mode and owner, holding an unrelated file z), lnk (symlink to a directory elsewhere: /xd, /xe),
    dang (dangling symlink), file
Bystanders that always exist in the live root and are never part of a contents set:
    /u /u2 (files)  /x (dir) /x/k  /xd /xd/z  /xe /xe/z
"""

import os
import shutil

from verif import fsnap

PATH = {"D": "/d", "F": "/d/f", "G": "/d/g h", "E": "/é", "H": "/é/h", "L": "/l"}
PARENT = {"F": "D", "G": "D", "H": "E", "L": None}
LNKT = {"D": "/xd", "E": "/xe"}
NONDIR_SLOTS = ("F", "G", "H", "L")
DIR_SLOTS = ("D", "E")

A_META = dict(mode=0o640, uid=1234, gid=2345, mtime=1111111111)
KIND = {
    "A": dict(A_META, kind="file", data=b"A-data\n", dev=7, inode=100),
    "B": dict(A_META, kind="file", data=b"B-data-differs\n", dev=8, inode=100),
    "C": dict(kind="file", data=b"C!\n", mode=0o4755, uid=1234, gid=2345, mtime=1222222222, dev=7, inode=101),
    # hand-built / vdb-style entries that declare no source inode at all (dev and inode unset): never hardlink candidates
    "N": dict(A_META, kind="file", data=b"N-data\n", dev=None, inode=None),
    "P": dict(A_META, kind="file", data=b"P-data-other\n", dev=None, inode=None, source="bytes"),
    "Q": dict(A_META, kind="file", data=b"N-data\n", dev=None, inode=None, mtime=1111111112),
    "sf": dict(kind="sym", tname="u", mode=0o777, uid=1234, gid=2345, mtime=1333333333),
    "sd": dict(kind="sym", tname="x", mode=0o777, uid=1234, gid=2345, mtime=1333333333),
    "sx": dict(kind="sym", tname=None, mode=0o777, uid=1234, gid=2345, mtime=1333333333),
    "ff": dict(kind="fifo", mode=0o620, uid=1234, gid=2345, mtime=1333333334),
    "dir": dict(kind="dir", mode=0o2750, uid=1234, gid=2345, mtime=1444444444),
}
DIR_META = dict(kind="dir", mode=0o751, uid=1234, gid=2345, mtime=1444444445)
FILE_KINDS = ("A", "B", "C")  # entries that declare a source inode (equal dev+inode = one hardlink group)
NOINODE_KINDS = ("N", "P", "Q")

OLD_DATA = b"old-data-that-is-longer-than-any-new-data\n"
STALE_DATA = b"stale-" * 12 + b"\n"
PRE_DIR_MODE = 0o1770
PRE_DIR_OWNER = (4321, 0)


def sym_target(slot, kind):
    t = KIND[kind]["tname"]
    if t is None:
        return "nowhere"
    return t if PARENT[slot] is None else "../" + t


def entry_spec(slot, kind):
    """What the contents set records for this entry (the reference 'new' state)."""
    m = dict(KIND[kind])
    m["path"] = PATH[slot]
    if m["kind"] == "sym":
        m["target"] = sym_target(slot, kind)
    return m


def used_dirs(scn):
    return sorted({PARENT[s] for s in scn["tree"] if PARENT[s]})


# ---------------------------------------------------------------------------------------------
# building the two trees


def _chattr(path, mode, uid, gid, mtime):
    os.lchown(path, uid, gid)
    if not os.path.islink(path):
        os.chmod(path, mode)
    if mtime is not None:
        os.utime(path, (mtime, mtime), follow_symlinks=False)


def _write(path, data):
    with open(path, "wb") as f:
        f.write(data)


def build_src(src, scn):
    """The package image: only file *data* is taken from here (the recorded attributes are in make_cset)."""
    shutil.rmtree(src, ignore_errors=True)
    os.makedirs(src)
    first = {}
    for slot in NONDIR_SLOTS:
        kind = scn["tree"].get(slot)
        if kind not in FILE_KINDS and kind not in NOINODE_KINDS:
            continue
        p = src + PATH[slot]
        os.makedirs(os.path.dirname(p), exist_ok=True)
        if kind in NOINODE_KINDS:
            _write(p, KIND[kind]["data"])  # every such entry is its own source file
        elif kind in first:
            os.link(first[kind], p)
        else:
            _write(p, KIND[kind]["data"])
            first[kind] = p


def build_dst(dst, scn):
    """The live root before the merge."""
    shutil.rmtree(dst, ignore_errors=True)
    if scn["off"] == "new":
        return
    os.mkdir(dst, 0o755)
    pre = scn["pre"]
    # bystanders
    _write(dst + "/u", b"u-data\n")
    _chattr(dst + "/u", 0o604, 77, 88, 900000001)
    _write(dst + "/u2", OLD_DATA)
    _chattr(dst + "/u2", 0o600, 4321, 5432, 999999999)
    for d in ("/x", "/xd", "/xe"):
        os.mkdir(dst + d)
        _write(dst + d + ("/k" if d == "/x" else "/z"), b"bystander\n")
        _chattr(dst + d + ("/k" if d == "/x" else "/z"), 0o644, 77, 88, 900000002)
    late = [("/x", 0o711, 77, 88), ("/xd", PRE_DIR_MODE) + PRE_DIR_OWNER, ("/xe", PRE_DIR_MODE) + PRE_DIR_OWNER]
    for ds in DIR_SLOTS:
        st = pre.get(ds)
        p = dst + PATH[ds]
        if st == "dir":
            os.mkdir(p)
            _write(p + "/z", b"bystander\n")
            _chattr(p + "/z", 0o644, 77, 88, 900000002)
            late.append((PATH[ds], PRE_DIR_MODE) + PRE_DIR_OWNER)
        elif st == "lnk":
            os.symlink(LNKT[ds][1:], p)
            _chattr(p, None, 0, 0, 900000004)
        elif st == "dang":
            os.symlink("nowhere", p)
            _chattr(p, None, 0, 0, 900000004)
        elif st == "file":
            _write(p, b"a-file-where-a-directory-is-wanted\n")
            _chattr(p, 0o600, 4321, 5432, 999999998)
    for slot in NONDIR_SLOTS:
        st = pre.get(slot)
        if st is None:
            continue
        p = dst + PATH[slot]
        up = "" if PARENT[slot] is None else "../"
        if st in ("file", "file+stale"):
            os.link(dst + "/u2", p)
            if st == "file+stale":
                _write(p + "#new", STALE_DATA)
                _chattr(p + "#new", 0o666, 77, 88, 900000003)
        elif st == "symf":
            os.symlink(up + "u", p)
            _chattr(p, None, 4321, 5432, 900000004)
        elif st == "symd":
            os.symlink(up + "x", p)
            _chattr(p, None, 4321, 5432, 900000004)
        elif st == "dang":
            os.symlink("nowhere", p)
            _chattr(p, None, 4321, 5432, 900000004)
        elif st == "fifo":
            os.mkfifo(p)
            _chattr(p, 0o600, 4321, 5432, 999999997)
        elif st in ("dir", "dirx"):
            os.mkdir(p)
            _write(p + "/z", b"bystander\n")
            _chattr(p + "/z", 0o644, 77, 88, 900000002)
            late.append((PATH[slot], PRE_DIR_MODE) + PRE_DIR_OWNER)
            if st == "dirx":
                # "<slot>/<target of an sd entry>" ("x" below /l, "../x" elsewhere) is a directory
                os.makedirs(p + "/" + sym_target(slot, "sd"), exist_ok=True)
        else:
            raise ValueError(st)
    for rel, mode, uid, gid in late:
        _chattr(dst + rel, mode, uid, gid, None)


def make_cset(src, scn):
    """The contents set handed to merge_contents (locations relative to '/')."""
    from pkgcore.fs import contents, fs
    from snakeoil.data_source import bytes_data_source, local_source

    objs = []
    if scn["dirs"] == "listed":
        for ds in used_dirs(scn):
            m = DIR_META
            objs.append(fs.fsDir(PATH[ds], mode=m["mode"], uid=m["uid"], gid=m["gid"], mtime=m["mtime"]))
    for slot in NONDIR_SLOTS:
        kind = scn["tree"].get(slot)
        if kind is None:
            continue
        m = entry_spec(slot, kind)
        common = dict(mode=m["mode"], uid=m["uid"], gid=m["gid"], mtime=m["mtime"])
        if m["kind"] == "file" and kind in NOINODE_KINDS:
            data = bytes_data_source(m["data"]) if m.get("source") == "bytes" else local_source(src + m["path"])
            if kind == "P":
                objs.append(fs.fsFile(m["path"], data=data, dev=None, inode=None, **common))
            else:  # dev/inode not passed at all: fsFile's own defaults apply
                objs.append(fs.fsFile(m["path"], data=data, strict=False, **common))
        elif m["kind"] == "file":
            objs.append(fs.fsFile(m["path"], data=local_source(src + m["path"]), dev=m["dev"], inode=m["inode"], **common))
        elif m["kind"] == "sym":
            objs.append(fs.fsSymlink(m["path"], m["target"], **common))
        elif m["kind"] == "fifo":
            objs.append(fs.fsFifo(m["path"], **common))
        else:
            objs.append(fs.fsDir(m["path"], **common))
    if scn.get("ord") == "desc":
        objs.reverse()
    return contents.contentsSet(objs)


def run_merge(cset, dst, scn):
    """Drive the real merge_contents the way scn['off'] says. Returns (returned value, exception or None)."""
    from pkgcore.fs import ops

    try:
        if scn["off"] == "pre":
            return ops.merge_contents(cset.insert_offset(dst)), None
        return ops.merge_contents(cset, offset=dst), None
    except Exception as e:
        return None, e


# ---------------------------------------------------------------------------------------------
# reference model


def analyse(scn):
    """Classify the paths of the live root for this scenario (independent of pkgcore).

    conflict   reasons why PMS forbids/undefines this merge (directory over a non-directory, non-directory over
               a directory, missing parent blocked); when non-empty only the frame clause is demanded
    inset      paths that belong to the contents set: the entries' lexical locations and, below a directory that
               is a live symlink, the location the kernel resolves them to
    created_ok missing parent directories the merge may create
    soft       real directories standing behind a symlink at a *listed* directory entry: kind and mode must not
               change (a pre-existing directory keeps its permissions); owner is not compared
    tmp        the '<entry>#new' names the merge protocol reserves
    skip       slots whose own entry (or whose parent directory) is part of a forbidden overlap; if merge_contents
               nevertheless returns normally, every *other* entry is still judged in full
    """
    tree, pre = scn["tree"], scn["pre"]
    conflict, inset, created_ok, soft, tmp = [], set(), set(), set(), set()
    skip = set()
    if scn["off"] == "new":
        created_ok.add("/")
    for ds in used_dirs(scn):
        st = pre.get(ds)
        if scn["dirs"] == "listed":
            inset.add(PATH[ds])
            if st == "file":
                conflict.append(f"directory entry {PATH[ds]} over a regular file")
                skip.add(ds)
            if st == "lnk":
                soft.add(LNKT[ds])
        else:
            if st is None:
                created_ok.add(PATH[ds])
            elif st in ("file", "dang"):
                conflict.append(f"parent {PATH[ds]} of an entry is a {st} and no directory entry is listed")
                skip.add(ds)
    for slot, kind in tree.items():
        st = pre.get(slot)
        lex = PATH[slot]
        locs = [lex]
        par = PARENT[slot]
        if par and pre.get(par) == "lnk":
            locs.append(LNKT[par] + "/" + os.path.basename(lex))
        inset.update(locs)
        tmp.update(l + "#new" for l in locs)
        if kind == "dir":
            if st in ("file", "file+stale", "symf", "fifo"):
                conflict.append(f"directory entry {lex} over a {st}")
                skip.add(slot)
            if st == "symd":
                soft.add("/x")
        elif st in ("dir", "dirx"):
            conflict.append(f"{KIND[kind]['kind']} entry {lex} over a directory")
            skip.add(slot)
    skip.update(s for s in tree if PARENT[s] in skip)
    return {"conflict": conflict, "inset": inset, "created_ok": created_ok, "soft": soft, "tmp": tmp, "skip": skip}


def frame_violations(scn, an, before, after):
    """'No path outside the contents set, other than missing parent directories, is created, changed or removed.'"""
    msgs = []
    outside = set()
    for p in sorted(set(before) | set(after)):
        if p in an["inset"]:
            continue
        a, b = before.get(p), after.get(p)
        if p in an["tmp"]:
            # a pre-existing path with the reserved temporary name is not judged; a new one must not stay behind
            if a is None and b is not None:
                msgs.append(f"temporary {p} left behind {fsnap.describe(b)}")
            continue
        if p in an["created_ok"]:
            if a is None and (b is None or b.kind == "dir"):
                continue
        outside.add(p)
        if p in an["soft"]:
            if a is None or b is None or (a.kind, a.mode) != (b.kind, b.mode):
                msgs.append(f"pre-existing directory {p} behind a symlink changed {fsnap.describe(a)} -> {fsnap.describe(b)}")
            continue
        if a is None:
            msgs.append(f"created outside the contents set: {p} {fsnap.describe(b)}")
        elif b is None:
            msgs.append(f"removed outside the contents set: {p} {fsnap.describe(a)}")
        elif not fsnap.same(a, b):
            msgs.append(f"changed outside the contents set: {p} {fsnap.describe(a)} -> {fsnap.describe(b)}")
    ga, gb = fsnap.groups(before, outside), fsnap.groups(after, outside)
    if ga != gb:
        msgs.append(f"hardlink groups outside the contents set changed: {sorted(map(sorted, ga))} -> {sorted(map(sorted, gb))}")
    return msgs


def placed_violations(scn, dst, skip=()):
    """'every entry exists at its location with its type, file data, symlink target and recorded mtime; created
    entries carry the recorded mode and ownership; same-inode sources are hardlinked; pre-existing directories keep
    their permissions' -- judged with direct os calls on the lexical locations."""
    import stat as S

    msgs = []
    pre = scn["pre"]
    if scn["dirs"] == "listed":
        for ds in used_dirs(scn):
            if ds in skip:
                continue
            p = dst + PATH[ds]
            try:
                st = os.stat(p)
            except OSError as e:
                msgs.append(f"directory entry {PATH[ds]} missing after merge: {e}")
                continue
            if not S.S_ISDIR(st.st_mode):
                msgs.append(f"directory entry {PATH[ds]} is not a directory after merge")
                continue
            if pre.get(ds) in ("dir", "lnk"):
                if S.S_IMODE(st.st_mode) != PRE_DIR_MODE:
                    msgs.append(f"pre-existing directory {PATH[ds]} lost its permissions: {oct(PRE_DIR_MODE)} -> {oct(S.S_IMODE(st.st_mode))}")
            else:
                lst = os.lstat(p)
                got = (S.S_ISDIR(lst.st_mode), S.S_IMODE(lst.st_mode), lst.st_uid, lst.st_gid)
                want = (True, DIR_META["mode"], DIR_META["uid"], DIR_META["gid"])
                if got != want:
                    msgs.append(f"created directory {PATH[ds]}: (isdir, mode, uid, gid) = {got[0], oct(got[1]), got[2], got[3]}, recorded {True, oct(want[1]), want[2], want[3]}")
    inodes = {}
    for slot in NONDIR_SLOTS:
        kind = scn["tree"].get(slot)
        if kind is None or slot in skip:
            continue
        m = entry_spec(slot, kind)
        p = dst + m["path"]
        try:
            lst = os.lstat(p)
        except OSError as e:
            msgs.append(f"entry {m['path']} ({kind}) missing after merge: {e.strerror}")
            continue
        got_kind = fsnap.kind_of(lst.st_mode)
        if m["kind"] == "dir":
            st = os.stat(p)
            if not S.S_ISDIR(st.st_mode):
                msgs.append(f"directory entry {m['path']} is a {got_kind} after merge")
            elif pre.get(slot) in ("dir", "dirx", "symd"):
                want_mode = 0o711 if pre.get(slot) == "symd" else PRE_DIR_MODE
                if S.S_IMODE(st.st_mode) != want_mode:
                    msgs.append(f"pre-existing directory {m['path']} lost its permissions: {oct(want_mode)} -> {oct(S.S_IMODE(st.st_mode))}")
            else:
                got = (got_kind, S.S_IMODE(lst.st_mode), lst.st_uid, lst.st_gid)
                want = ("dir", m["mode"], m["uid"], m["gid"])
                if got != want:
                    msgs.append(f"created directory {m['path']}: {got[0], oct(got[1]), got[2], got[3]} recorded {want[0], oct(want[1]), want[2], want[3]}")
            continue
        if got_kind != m["kind"]:
            msgs.append(f"entry {m['path']} ({kind}) is a {got_kind} after merge, recorded {m['kind']}")
            continue
        if (lst.st_uid, lst.st_gid) != (m["uid"], m["gid"]):
            msgs.append(f"entry {m['path']} ({kind}) owner {lst.st_uid}:{lst.st_gid}, recorded {m['uid']}:{m['gid']}")
        if m["kind"] == "sym":
            t = os.readlink(p)
            if t != m["target"]:
                msgs.append(f"symlink {m['path']} -> {t!r}, recorded {m['target']!r}")
            continue
        if S.S_IMODE(lst.st_mode) != m["mode"]:
            msgs.append(f"entry {m['path']} ({kind}) mode {oct(S.S_IMODE(lst.st_mode))}, recorded {oct(m['mode'])}")
        if int(lst.st_mtime) != m["mtime"]:
            msgs.append(f"entry {m['path']} ({kind}) mtime {int(lst.st_mtime)}, recorded {m['mtime']}")
        if m["kind"] == "file":
            with open(p, "rb") as f:
                data = f.read()
            if data != m["data"]:
                msgs.append(f"entry {m['path']} ({kind}) data {data!r}, recorded {m['data']!r}")
            # what the contents set declares: one group per equal non-None (dev, inode), otherwise the entry stands alone
            declared = (m["dev"], m["inode"]) if None not in (m["dev"], m["inode"]) else ("alone", slot)
            inodes[slot] = (declared, (lst.st_dev, lst.st_ino), lst.st_nlink, kind)
    files_skipped = any(KIND[scn["tree"][s]]["kind"] == "file" for s in skip if s in scn["tree"])
    done = sorted(inodes)
    for i, s1 in enumerate(done):
        d1, got1, nlink1, k1 = inodes[s1]
        for s2 in done[i + 1 :]:
            d2, got2, _n, k2 = inodes[s2]
            if d1 == d2 and got1 != got2:
                msgs.append(f"the {k1} entries {PATH[s1]} and {PATH[s2]} share one source inode but were merged as separate inodes")
            elif d1 != d2 and got1 == got2:
                msgs.append(f"{PATH[s1]} ({k1}) and {PATH[s2]} ({k2}) were not declared hardlinked (dev/inode {d1[0] if d1[0] != 'alone' else None} vs {d2[0] if d2[0] != 'alone' else None}) but share one inode after the merge")
        want = sum(1 for s in done if inodes[s][0] == d1)
        if not files_skipped and nlink1 != want:
            msgs.append(f"{PATH[s1]} ({k1}) has st_nlink {nlink1} after the merge, the contents set declares a group of {want}")
    return msgs
