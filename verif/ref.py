"""Reference models shared by several checks.  Deliberately naive; never import the
pkgcore code they judge."""

import re
from functools import lru_cache

_VER_RE = re.compile(r"^(\d+)((?:\.\d+)*)([a-z]?)((?:_(?:alpha|beta|pre|rc|p)\d*)*)(?:-r(\d+))?$")
_SUF_RE = re.compile(r"_(alpha|beta|pre|rc|p)(\d*)")
SUF_RANK = {"alpha": 0, "beta": 1, "pre": 2, "rc": 3, "p": 5}
NO_SUF = 4


@lru_cache(maxsize=None)
def parse_version(fullver):
    """'1.02a_alpha1_p-r3' -> (first:str, rest:tuple[str], letter:str, suffixes:tuple[(name,numstr)], rev:str|None)"""
    m = _VER_RE.match(fullver)
    if not m:
        raise ValueError(fullver)
    first, rest, letter, sufs, rev = m.groups()
    rest = tuple(rest.split(".")[1:]) if rest else ()
    sufs = tuple(_SUF_RE.findall(sufs))
    return first, rest, letter, sufs, rev


def _c(a, b):
    return (a > b) - (a < b)


@lru_cache(maxsize=None)
def pms_key_noop(x):
    return x


def pms_ver_cmp(fa, fb, ignore_rev=False):
    """PMS Algorithm 3.1-3.7 on full version strings (with optional -rN)."""
    a1, ar, al, asf, arev = parse_version(fa)
    b1, br, bl, bsf, brev = parse_version(fb)
    # 3.2 first component: integers
    c = _c(int(a1), int(b1))
    if c:
        return c
    # 3.3 remaining components
    for x, y in zip(ar, br):
        if x[0] == "0" or y[0] == "0":
            c = _c(x.rstrip("0"), y.rstrip("0"))
        else:
            c = _c(int(x), int(y))
        if c:
            return c
    c = _c(len(ar), len(br))
    if c:
        return c
    # 3.4 letter
    c = _c(al, bl)
    if c:
        return c
    # 3.5/3.6 suffixes
    for (sa, na), (sb, nb) in zip(asf, bsf):
        c = _c(SUF_RANK[sa], SUF_RANK[sb])
        if c:
            return c
        c = _c(int(na or "0"), int(nb or "0"))
        if c:
            return c
    if len(asf) > len(bsf):
        return 1 if asf[len(bsf)][0] == "p" else -1
    if len(bsf) > len(asf):
        return -1 if bsf[len(asf)][0] == "p" else 1
    if ignore_rev:
        return 0
    # 3.7 revision
    return _c(int(arev or "0"), int(brev or "0"))


def components(fullver):
    """Textual component list used for '=v*' prefix matching (Appendix A2)."""
    first, rest, letter, sufs, rev = parse_version(fullver)
    out = [first, *rest]
    if letter:
        out.append(letter)
    for s, n in sufs:
        out.append("_" + s + n)
    if rev is not None:
        out.append("-r" + rev)
    return out
