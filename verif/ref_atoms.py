"""Reference recogniser for PMS package dependency specifications (DESIGN Appendix A3).

Plain Python, deliberately boring, never imports pkgcore.  Used by C03 (and usable by C04/C05
to take an atom string apart).  The grammar is transcribed from PMS:

  3.1.1 category  [A-Za-z0-9+_.-]+, not starting with '-', '.', '+'
  3.1.2 package   [A-Za-z0-9+_-]+, not starting with '-' or '+', not ending in '-' followed by
                  anything matching the version syntax (which includes an optional -rN)
  3.1.3 slot      [A-Za-z0-9+_.-]+, not starting with '-', '.', '+'   (same for sub-slots)
  3.1.4 USE flag  [A-Za-z0-9+_@-]+, starting with an alphanumeric
  3.1.5 repo name [A-Za-z0-9_-]+, not starting with '-'   (pkgcore extension ::repo, no EAPI only)
  3.2   version   N(.N)*[a-z]?(_(alpha|beta|pre|rc|p)N?)*(-rN)?
  8.3   [!|!!] [op] cat/pkg[-ver][*] [:slotspec] [::repo] [[usedeps]]
        op in < <= = ~ >= >; a version iff an operator; '*' only with '='
        slotspec: slot | slot/sub | * | = | slot=      (sub-slot and operators: EAPI 5+)
        usedeps : comma separated, non-empty; each  flag | -flag | flag= | !flag= | flag? | !flag?
                  with an optional (+) / (-) directly after the flag name (EAPI 4+)
  feature gates (PMS tables): '!' all EAPIs, '!!' 2+, slot deps 1+, USE deps 2+, USE defaults 4+,
        sub-slots and slot operators 5+.

``recognise(s, eapi)`` returns (verdict, reason, parts):
  verdict "valid" | "invalid" | "excluded";  "excluded" = syntactically fine except for a point PMS leaves
  open (listed in ARGUABLE), so no oracle is applied.  A hard error always wins over an arguable point.
  eapi is an int 0..9 or None (no EAPI given: every feature of the latest EAPI plus ::repo).
"""

import re

ARGUABLE = {
    "tilde-with-revision": "'~' together with a -rN revision (PMS does not forbid it, portage/pkgcore reject it)",
    "slot-subslot-equals": "':slot/subslot=' (PMS: package-manager-only syntax that ebuilds must not use)",
    "repo-versionlike-tail": "repository name ending in a hyphen followed by something version-like (PMS 3.1.5 forbids it as a name; the ::repo extension is pkgcore's own)",
}

_CAT_RE = re.compile(r"[A-Za-z0-9_][A-Za-z0-9+_.-]*\Z")
_PKG_CHARS_RE = re.compile(r"[A-Za-z0-9_][A-Za-z0-9+_-]*\Z")
_SLOT_RE = re.compile(r"[A-Za-z0-9_][A-Za-z0-9+_.-]*\Z")
_FLAG_RE = re.compile(r"[A-Za-z0-9][A-Za-z0-9+_@-]*\Z")
_REPO_RE = re.compile(r"[A-Za-z0-9_][A-Za-z0-9_-]*\Z")
_VERSION_RE = re.compile(r"[0-9]+(\.[0-9]+)*[a-z]?(_(alpha|beta|pre|rc|p)[0-9]*)*(-r[0-9]+)?\Z")
# Deviating dialects.  They are NEVER used as the oracle; C03's known-finding classifiers use them to
# decide whether a counterexample is explained by exactly one named deviation.
_VERSION_UPPER_RE = re.compile(r"[0-9]+(\.[0-9]+)*[a-zA-Z]?(_(alpha|beta|pre|rc|p)[0-9]*)*(-r[0-9]+)?\Z")
_SLOT_PLUS_RE = re.compile(r"[A-Za-z0-9_+][A-Za-z0-9+_.-]*\Z")
DIALECTS = ("version-letter-uppercase", "slot-leading-plus")
_REVISION_TAIL_RE = re.compile(r"-r[0-9]+\Z")

OPERATORS = ("<=", ">=", "<", ">", "=", "~")  # longest first


class _Invalid(Exception):
    pass


def is_version(s, dialect=()):
    if "version-letter-uppercase" in dialect:
        return _VERSION_UPPER_RE.match(s) is not None
    return _VERSION_RE.match(s) is not None


def is_package_name(s, dialect=()):
    if not _PKG_CHARS_RE.match(s):
        return False
    for i, ch in enumerate(s):
        if ch == "-" and is_version(s[i + 1 :], dialect):
            return False
    return True


def features(eapi):
    """PMS feature tables. eapi None = no EAPI given."""
    n = 99 if eapi is None else int(eapi)
    return {
        "strong_blockers": n >= 2,
        "slot_deps": n >= 1,
        "use_deps": n >= 2,
        "use_defaults": n >= 4,
        "sub_slots": n >= 5,
        "slot_operators": n >= 5,
        "repo_ids": eapi is None,
    }


def _split_name_version(pkgver, dialect=()):
    """All ways to read pkgver as <package name>-<version>; PMS makes this unique."""
    out = []
    for i, ch in enumerate(pkgver):
        if ch == "-":
            name, ver = pkgver[:i], pkgver[i + 1 :]
            if name and is_version(ver, dialect) and is_package_name(name, dialect):
                out.append((name, ver))
    return out


def _parse(s, eapi, arguable, dialect=()):
    feat = features(eapi)
    slot_re = _SLOT_PLUS_RE if "slot-leading-plus" in dialect else _SLOT_RE
    parts = {}
    if not s:
        raise _Invalid("empty")
    rest = s

    # blockers
    nbang = 0
    while rest.startswith("!") and nbang < 2:
        rest = rest[1:]
        nbang += 1
    parts["blocker"] = "!" * nbang
    if nbang == 2 and not feat["strong_blockers"]:
        raise _Invalid("gate-strong-blocker")

    # operator
    op = ""
    for cand in OPERATORS:
        if rest.startswith(cand):
            op = cand
            rest = rest[len(cand) :]
            break
    parts["op"] = op

    # use deps: at most one bracketed block, at the very end
    use = None
    if "[" in rest or "]" in rest:
        lb = rest.find("[")
        if lb == -1 or not rest.endswith("]"):
            raise _Invalid("use-brackets")
        body = rest[lb + 1 : -1]
        rest = rest[:lb]
        if "[" in body or "]" in body or "]" in rest:
            raise _Invalid("use-brackets")
        use = body
    # slot / repo
    slotspec = repo = None
    colon = rest.find(":")
    if colon != -1:
        tail = rest[colon:]
        rest = rest[:colon]
        if tail.startswith("::"):
            repo = tail[2:]
        else:
            body = tail[1:]
            dc = body.find("::")
            if dc == -1:
                slotspec = body
            else:
                slotspec, repo = body[:dc], body[dc + 2 :]

    # cat/pkg[-ver][*]
    glob = False
    if rest.endswith("*"):
        glob = True
        rest = rest[:-1]
        if op != "=":
            raise _Invalid("glob-without-equals")
    if rest.count("/") != 1:
        raise _Invalid("cat-pkg-shape")
    cat, pkgver = rest.split("/")
    if not _CAT_RE.match(cat):
        raise _Invalid("category")
    if op:
        splits = _split_name_version(pkgver, dialect)
        if not splits:
            if is_package_name(pkgver, dialect):
                raise _Invalid("operator-without-version")
            raise _Invalid("package-or-version")
        assert len(splits) == 1, (pkgver, splits)
        name, ver = splits[0]
        if op == "~" and _REVISION_TAIL_RE.search(ver):
            arguable.append("tilde-with-revision")
    else:
        if not is_package_name(pkgver, dialect):
            if _split_name_version(pkgver, dialect):
                raise _Invalid("version-without-operator")
            raise _Invalid("package-name")
        name, ver = pkgver, None
    parts.update(category=cat, package=name, version=ver, glob=glob)

    # slot spec
    slot = subslot = slot_op = None
    if slotspec is not None:
        if not feat["slot_deps"]:
            raise _Invalid("gate-slot-dep")
        if slotspec in ("*", "="):
            slot_op = slotspec
        else:
            body = slotspec
            if body.endswith("="):
                slot_op = "="
                body = body[:-1]
            if "/" in body:
                slot, _, subslot = body.partition("/")
                if not slot_re.match(subslot):
                    raise _Invalid("subslot-name")
            else:
                slot = body
            if not slot_re.match(slot):
                raise _Invalid("slot-name")
        if slot_op is not None and not feat["slot_operators"]:
            raise _Invalid("gate-slot-operator")
        if subslot is not None and not feat["sub_slots"]:
            raise _Invalid("gate-sub-slot")
        if subslot is not None and slot_op == "=":
            arguable.append("slot-subslot-equals")
    parts.update(slot=slot, subslot=subslot, slot_op=slot_op)

    # repo
    if repo is not None:
        if not _REPO_RE.match(repo):
            raise _Invalid("repo-name")
        if not feat["repo_ids"]:
            raise _Invalid("gate-repo-id")
        if any(ch == "-" and is_version(repo[i + 1 :]) for i, ch in enumerate(repo)):
            arguable.append("repo-versionlike-tail")
    parts["repo"] = repo

    # use deps
    flags = None
    if use is not None:
        if not feat["use_deps"]:
            raise _Invalid("gate-use-dep")
        flags = []
        for tok in use.split(","):
            t = tok
            kind = "plain"
            if t.endswith("=") or t.endswith("?"):
                kind = t[-1]
                t = t[:-1]
                if t.startswith("!"):
                    kind = "!" + kind
                    t = t[1:]
            elif t.startswith("-"):
                kind = "-"
                t = t[1:]
            default = None
            if t.endswith("(+)") or t.endswith("(-)"):
                default = t[-2]
                t = t[:-3]
            if not _FLAG_RE.match(t):
                raise _Invalid("use-dep-syntax")
            if default is not None and not feat["use_defaults"]:
                raise _Invalid("gate-use-default")
            flags.append((kind, t, default))
    parts["use"] = flags
    return parts


def recognise(s, eapi, dialect=()):
    arguable = []
    try:
        parts = _parse(s, eapi, arguable, dialect)
    except _Invalid as e:
        return "invalid", str(e), None
    if arguable:
        return "excluded", arguable[0], parts
    return "valid", "ok", parts


def feature_tags(parts):
    """Which optional features a valid atom uses (for outcome classes)."""
    t = []
    if parts["blocker"]:
        t.append("block" if parts["blocker"] == "!" else "strongblock")
    if parts["op"]:
        t.append("glob" if parts["glob"] else "ver")
    if parts["slot"] is not None:
        t.append("slot")
    if parts["subslot"] is not None:
        t.append("sub")
    if parts["slot_op"] is not None:
        t.append("slotop")
    if parts["repo"] is not None:
        t.append("repo")
    if parts["use"] is not None:
        t.append("usedef" if any(d for _, _, d in parts["use"]) else "use")
    return "+".join(t) or "plain"
