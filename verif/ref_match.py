"""Reference model for atom matching (DESIGN Appendix A2/A4), shared by C04 and C05.

Deliberately naive and independent: works on *descriptors* (plain tuples the harness also
uses to spell the atom text and to build the package object); never imports pkgcore.

Atom descriptor  AD = (blocker, op, key, ver, slot, subslot, slotop, repo, use)
    blocker ''|'!'|'!!'; op ''|'<'|'<='|'='|'~'|'>='|'>'|'=*'; key 'cat/pkg'; ver full version text or None;
    slot/subslot/repo text or None; slotop None|'='|'*'; use = tuple of tokens '[-]flag[(+)|(-)]'.
Package descriptor PD = (key, ver, slot, subslot, repo, iuse, use)   iuse/use: sorted tuples of bare flag names.
"""

from functools import lru_cache

from . import ref


def atom_text(ad):
    blocker, op, key, ver, slot, subslot, slotop, repo, use = ad
    s = blocker
    if op == "=*":
        s += "=" + key + "-" + ver + "*"
    elif op:
        s += op + key + "-" + ver
    else:
        s += key
    if slot is not None:
        s += ":" + slot
        if subslot is not None:
            s += "/" + subslot
        if slotop == "=":
            s += "="
    elif slotop is not None:
        s += ":" + slotop
    if repo is not None:
        s += "::" + repo
    if use:
        s += "[" + ",".join(use) + "]"
    return s


def pkg_cpv(pd):
    return pd[0] + "-" + pd[1]


@lru_cache(maxsize=None)
def glob_ok_version(ver):
    """True when '=ver*' is inside the alphabet on which A2 is unarguable: no leading-zero component, the written
    version does not end in a letter or a number-less suffix, no '-r0' spelling."""
    first, rest, letter, sufs, rev = ref.parse_version(ver)
    for c in (first, *rest):
        if len(c) > 1 and c[0] == "0":
            return False
    for _, n in sufs:
        if len(n) > 1 and n[0] == "0":
            return False
    if rev is not None:
        return not (rev[0] == "0")
    if sufs:
        return sufs[-1][1] != ""
    return not letter


@lru_cache(maxsize=None)
def glob_open_version(ver):
    """True when '=ver*' may be written although A2 is arguable for *some* packages: like glob_ok_version, but the
    written version may end in a version letter or in a number-less suffix (_p, _alpha, ...).  The arguable
    (atom, package) pairs are singled out by glob_arguable()."""
    first, rest, letter, sufs, rev = ref.parse_version(ver)
    for c in (first, *rest):
        if len(c) > 1 and c[0] == "0":
            return False
    for _, n in sufs:
        if len(n) > 1 and n[0] == "0":
            return False
    return rev is None or rev[0] != "0"


@lru_cache(maxsize=None)
def glob_arguable(aver, pver):
    """'=aver*' against pver is arguable exactly when aver ends in a number-less suffix name and pver continues that
    very suffix with a number (=1_p* vs 1_p1: one component '_p1' by A2, a boundary by portage's letter/digit rule).
    Everything else is decided alike by the component-prefix rule and by portage's boundary rule: =1_p* matches 1_p,
    1_p-r1, 1_p_alpha1 and does not match 1, 1_pre, 1_pre1; =1a* matches 1a, 1a_p1, 1a-r1 and not 1, 1b."""
    _, _, _, sufs, rev = ref.parse_version(aver)
    if rev is not None or not sufs or sufs[-1][1] != "":
        return False
    return pver.startswith(aver) and pver[len(aver) : len(aver) + 1].isdigit()


@lru_cache(maxsize=None)
def has_leading_zero(ver):
    first, rest, letter, sufs, rev = ref.parse_version(ver)
    nums = [first, *rest] + [n for _, n in sufs if n] + ([rev] if rev is not None else [])
    return any(len(c) > 1 and c[0] == "0" for c in nums)


@lru_cache(maxsize=None)
def version_holds(op, aver, pver):
    """Does package version pver satisfy 'op aver'?  (A1 order, A2 component prefix.)"""
    if op == "":
        return True
    if op == "=*":
        ca = ref.components(aver)
        cp = ref.components(pver)
        return cp[: len(ca)] == ca
    if op == "~":
        return ref.pms_ver_cmp(pver, aver, ignore_rev=True) == 0
    c = ref.pms_ver_cmp(pver, aver)
    if op == "<":
        return c < 0
    if op == "<=":
        return c <= 0
    if op == "=":
        return c == 0
    if op == ">=":
        return c >= 0
    if op == ">":
        return c > 0
    raise ValueError(op)


def split_use_token(tok):
    """'-x(+)' -> (negated, flag, default) with default None|'+'|'-'."""
    neg = tok.startswith("-")
    if neg:
        tok = tok[1:]
    default = None
    if tok.endswith("(+)") or tok.endswith("(-)"):
        default = tok[-2]
        tok = tok[:-3]
    return neg, tok, default


def use_holds(tokens, iuse, use):
    """(verdict, via_default): verdict None when the statement is silent about some token (a no-default USE dep on a
    flag absent from IUSE; PMS calls that an error, so the whole USE part is left unjudged), else whether every token
    holds.  via_default: a (+)/(-) default decided some token."""
    via_default = False
    undefined = False
    ok = True
    for tok in tokens:
        neg, flag, default = split_use_token(tok)
        if flag in iuse:
            enabled = flag in use
        elif default is None:
            undefined = True
            continue
        else:
            via_default = True
            enabled = default == "+"
        if enabled == neg:
            ok = False
    if undefined:
        return None, via_default
    return ok, via_default


def match_reason(ad, pd):
    """First constraint (in statement order) that fails, or 'match'.  'excluded' when every constraint the statement
    defines holds and the verdict would hinge on a USE dep the statement is silent about."""
    blocker, op, key, ver, slot, subslot, slotop, repo, use = ad
    pkey, pver, pslot, psubslot, prepo, piuse, puse = pd[:7]
    if key != pkey:
        return "key"
    if op == "=*" and glob_arguable(ver, pver):
        return "excluded-glob"
    if not version_holds(op, ver, pver):
        return "ver"
    if slot is not None and slot != pslot:
        return "slot"
    if subslot is not None and subslot != psubslot:
        return "subslot"
    if repo is not None and repo != prepo:
        return "repo"
    uh, via_default = use_holds(use, piuse, puse) if use else (True, False)
    if uh is None:
        return "excluded"
    if not uh:
        return "use-default" if via_default else "use"
    return "match-default" if via_default else "match"


def ref_match(ad, pd):
    """True / False / None (excluded)."""
    r = match_reason(ad, pd)
    if r.startswith("excluded"):
        return None
    return r.startswith("match")
