"""Runner shared by every property check.

A check module ``verif.checks.cNN`` provides

    PROPERTY = "C01"
    LEVEL    = "exploration" | "model_checking" | "fault_enumeration"
    RULE     = "how cases are enumerated and what counts as a distinct non-trivial case"
    ASSUMPTIONS = [...]
    def tasks(tier) -> list            picklable work-unit descriptors (a finite, fixed partition)
    def work(task) -> dict             {"evals": int, "classes": {str: int}, "viol": [case, ...],
                                        "samples": [...], "counters": {str: int}}
    def replay(case) -> list[str]      re-evaluate one recorded case, return violation messages
    CLASSIFIERS = {name: fn(case) -> bool}   narrow predicates named by known_findings.json
    WORKERS (optional int), SETUP (optional callable run once in the parent before forking)

The runner partitions tasks over worker processes, merges results, confirms every
candidate violation in a fresh process through ``replay`` (a candidate that does not
reproduce is an engine error, exit 2 -- never a VIOLATION line), applies
known_findings.json, writes evidence and replay files and sets the exit status.

VERIF_SEED only rotates the order in which the fixed task list is visited.
"""

import argparse
import hashlib
import importlib
import json
import multiprocessing as mp
import os
import random
import subprocess
import sys
import time
import traceback

HERE = os.path.dirname(os.path.dirname(os.path.abspath(__file__)))
ROOT = os.environ.get("VERIF_PKGCORE_ROOT", "/repo")
EVIDENCE_DIR = os.environ.get("VERIF_EVIDENCE_DIR") or os.path.join(HERE, "evidence")
REPLAY_DIR = os.environ.get("VERIF_REPLAY_DIR") or os.path.join(HERE, "replays")
FINDINGS = os.path.join(HERE, "known_findings.json")
MAX_VIOL_PER_TASK = 40
MAX_REPORTED = 25


def assert_tree():
    import logging

    logging.getLogger("pkgcore").setLevel(logging.ERROR)
    logging.getLogger("snakeoil").setLevel(logging.ERROR)
    import pkgcore

    src = os.path.realpath(os.path.join(ROOT, "src"))
    got = os.path.realpath(pkgcore.__file__)
    if not got.startswith(src + os.sep):
        print(f"ERROR pkgcore imported from {got}, expected under {src}", file=sys.stderr)
        sys.exit(2)


def load_findings(prop):
    if not os.path.exists(FINDINGS):
        return []
    with open(FINDINGS) as f:
        data = json.load(f)
    return [e for e in data.get("findings", []) if e["property"] == prop and e["kind"] == "finding"]


def case_key(case):
    return hashlib.sha1(json.dumps(case, sort_keys=True, default=repr).encode()).hexdigest()[:16]


def _work_wrapper(args):
    modname, task = args
    import signal

    # pkgcore.ebuild.processor installs SIGTERM/SIGINT handlers raising SystemExit/KeyboardInterrupt;
    # a worker must die when told to
    mod = importlib.import_module(modname)
    try:
        signal.signal(signal.SIGTERM, signal.SIG_DFL)
        signal.signal(signal.SIGINT, signal.SIG_DFL)
    except ValueError:
        pass
    t0 = time.time()
    try:
        res = mod.work(task)
    except (SystemExit, KeyboardInterrupt):
        raise
    except BaseException as e:  # an engine error, not a violation
        return {"error": f"{type(e).__name__}: {e}\n{traceback.format_exc()}", "task": repr(task)[:300]}
    res.setdefault("evals", 0)
    res.setdefault("classes", {})
    res.setdefault("viol", [])
    res.setdefault("samples", [])
    res.setdefault("counters", {})
    if not res.get("keep_all_viol"):
        # classify before truncating: known-finding cases must never crowd out unclassified ones
        findings = load_findings(mod.PROPERTY)
        unknown, per = [], {}
        for c in res["viol"]:
            name = None
            for e in findings:
                try:
                    if mod.CLASSIFIERS[e["predicate"]](c):
                        name = e["name"]
                        break
                except Exception:
                    pass
            if name is None:
                if len(unknown) < MAX_VIOL_PER_TASK:
                    unknown.append(c)
            else:
                b = per.setdefault(name, [])
                if len(b) < 4:
                    b.append(c)
                res["counters"]["known_finding_cases"] = res["counters"].get("known_finding_cases", 0) + 1
        res["viol"] = unknown + [c for b in per.values() for c in b]
    res["wall"] = time.time() - t0
    return res


def confirm(prop, case):
    """Re-run one candidate in a fresh process. Returns list of messages (empty = not reproduced)."""
    os.makedirs(os.path.join(REPLAY_DIR, prop), exist_ok=True)
    path = os.path.join(REPLAY_DIR, prop, case_key(case) + ".json")
    with open(path, "w") as f:
        json.dump({"property": prop, "case": case}, f, indent=1, sort_keys=True, default=repr)
    p = subprocess.run(
        [sys.executable, "-m", "verif.run", prop, "--replay", path, "--confirm"],
        capture_output=True,
        text=True,
        cwd=HERE,
    )
    if p.returncode == 3:
        msgs = [l[len("REPRO: ") :] for l in p.stdout.splitlines() if l.startswith("REPRO: ")]
        return path, msgs or ["reproduced"]
    if p.returncode == 0:
        return path, []
    print(p.stdout[-2000:], p.stderr[-4000:], file=sys.stderr)
    print(f"ERROR confirm run failed rc={p.returncode} for {path}", file=sys.stderr)
    sys.exit(2)


def write_evidence(mod, tier, seed, cov, wall, nviol, extra_assumptions=()):
    os.makedirs(EVIDENCE_DIR, exist_ok=True)
    ev = {
        "property_id": mod.PROPERTY,
        "tier": tier,
        "seed": seed,
        "level": mod.LEVEL,
        "coverage": cov,
        "assumptions": list(getattr(mod, "ASSUMPTIONS", [])) + list(extra_assumptions),
        "wall_s": round(wall, 3),
        "violations": nviol,
    }
    path = os.path.join(EVIDENCE_DIR, mod.PROPERTY + ".json")
    tmp = path + ".tmp"
    with open(tmp, "w") as f:
        json.dump(ev, f, indent=1, sort_keys=True, default=repr)
        f.write("\n")
    os.replace(tmp, path)
    return path


def main(argv=None):
    ap = argparse.ArgumentParser()
    ap.add_argument("prop")
    ap.add_argument("--tier", default=os.environ.get("VERIF_TIER", "quick"), choices=["quick", "thorough"])
    ap.add_argument("--replay")
    ap.add_argument("--confirm", action="store_true")
    ap.add_argument("--workers", type=int, default=None)
    ap.add_argument("--no-confirm", action="store_true", help="debug: skip fresh-process confirmation")
    ap.add_argument("--limit", type=int, default=None, help="debug: run only the first N tasks (evidence not exhaustive)")
    args = ap.parse_args(argv)
    prop = args.prop.upper()
    seed = int(os.environ.get("VERIF_SEED", "0") or 0)
    assert_tree()
    modname = f"verif.checks.{prop.lower()}"
    mod = importlib.import_module(modname)
    assert mod.PROPERTY == prop

    if args.replay:
        with open(args.replay) as f:
            rec = json.load(f)
        case = rec["case"]
        msgs = mod.replay(case)
        for m in msgs:
            print("REPRO: " + str(m).replace("\n", " | ")[:1500])
        if args.confirm:
            sys.exit(3 if msgs else 0)
        if msgs:
            known = [e for e in load_findings(prop) if mod.CLASSIFIERS[e["predicate"]](case)]
            if known:
                print(f"KNOWN-FINDING: property={prop} {known[0]['name']}: {known[0]['what']}")
                sys.exit(0)
            print(f"VIOLATION property={prop} replay={args.replay}")
            sys.exit(1)
        print(f"OK property={prop} replay case holds")
        sys.exit(0)

    t0 = time.time()
    if hasattr(mod, "SETUP"):
        mod.SETUP(args.tier)
    tasks = list(mod.tasks(args.tier))
    ntasks_total = len(tasks)
    random.Random(seed).shuffle(tasks)
    if args.limit is not None:
        tasks = tasks[: args.limit]
    nworkers = args.workers or getattr(mod, "WORKERS", None) or min(16, os.cpu_count() or 1)
    nworkers = max(1, min(nworkers, len(tasks)))
    deadline = getattr(mod, "TIME_CAP", {}).get(args.tier)

    evals = 0
    classes = {}
    counters = {}
    samples = []
    cands = {}
    errors = []
    done_tasks = 0
    capped = False
    ctx = mp.get_context(getattr(mod, "MP_CONTEXT", "fork"))

    def absorb(res):
        nonlocal evals, done_tasks
        if "error" in res:
            errors.append(res)
            return
        done_tasks += 1
        evals += res["evals"]
        for k, v in res["classes"].items():
            classes[k] = classes.get(k, 0) + v
        for k, v in res["counters"].items():
            if k.startswith("max_"):
                counters[k] = max(counters.get(k, 0), v)
            else:
                counters[k] = counters.get(k, 0) + v
        if len(samples) < 6:
            samples.extend(res["samples"][: 6 - len(samples)])
        for c in res["viol"]:
            cands.setdefault(case_key(c), c)

    if nworkers == 1:
        for t in tasks:
            absorb(_work_wrapper((modname, t)))
            if len(errors) > 3:
                break
            if deadline and time.time() - t0 > deadline:
                capped = True
                break
    else:
        import concurrent.futures as cf

        ex = cf.ProcessPoolExecutor(max_workers=nworkers, mp_context=ctx)
        try:
            futs = [ex.submit(_work_wrapper, (modname, t)) for t in tasks]
            try:
                for fut in cf.as_completed(futs):
                    absorb(fut.result())
                    if len(errors) > 3:
                        break
                    if deadline and time.time() - t0 > deadline:
                        capped = True
                        break
            except cf.process.BrokenProcessPool as e:
                print(f"ENGINE ERROR: a worker process died unexpectedly ({e}); results incomplete", file=sys.stderr)
                sys.exit(2)
        finally:
            procs = list(getattr(ex, "_processes", {}).values())
            ex.shutdown(wait=False, cancel_futures=True)
            if capped or errors:
                for pr in procs:
                    try:
                        pr.kill()
                    except Exception:
                        pass
    if errors:
        for e in errors:
            print("ENGINE ERROR in task", e["task"], "\n", e["error"], file=sys.stderr)
        sys.exit(2)

    # triage candidates
    findings = load_findings(prop)
    known_hits = {}
    unknown = []
    # order: simplest first (shortest serialisation)
    ordered = sorted(cands.values(), key=lambda c: (len(json.dumps(c, sort_keys=True, default=repr)), json.dumps(c, sort_keys=True, default=repr)))
    for c in ordered:
        hit = None
        for e in findings:
            if mod.CLASSIFIERS[e["predicate"]](c):
                hit = e
                break
        if hit is not None:
            known_hits.setdefault(hit["name"], [hit, 0, c])
            known_hits[hit["name"]][1] += 1
        else:
            unknown.append(c)
    reported = []
    if not args.no_confirm:
        for name, (e, n, c) in list(known_hits.items()):
            path, msgs = confirm(prop, c)
            if not msgs:
                print(f"ERROR candidate for known finding {name} did not reproduce in a fresh process: {path}", file=sys.stderr)
                sys.exit(2)
    not_reproduced = []
    tried = 0
    for c in unknown:
        if len(reported) >= MAX_REPORTED or tried >= 3 * MAX_REPORTED:
            break
        tried += 1
        if args.no_confirm:
            os.makedirs(os.path.join(REPLAY_DIR, prop), exist_ok=True)
            path = os.path.join(REPLAY_DIR, prop, case_key(c) + ".json")
            with open(path, "w") as f:
                json.dump({"property": prop, "case": c}, f, indent=1, sort_keys=True, default=repr)
            msgs = [c.get("msg", "")]
        else:
            path, msgs = confirm(prop, c)
            if not msgs:
                # never reported as a violation; remembered so that "nothing reproduced" is an engine error
                not_reproduced.append(path)
                continue
        reported.append((path, c, msgs))
    if not_reproduced and not reported:
        for path in not_reproduced[:5]:
            print(f"ERROR candidate did not reproduce in a fresh process (state carried between cases in a worker, or engine nondeterminism): {path}", file=sys.stderr)
        sys.exit(2)
    if not_reproduced:
        print(f"NOTE {len(not_reproduced)} candidate(s) seen by a worker did not reproduce in a fresh process and are not reported (process-wide state carried between cases?)", file=sys.stderr)
        unknown = [c for p_, c, m_ in reported]

    wall = time.time() - t0
    exhaustive = (not capped) and args.limit is None and done_tasks == ntasks_total
    cov = dict(counters)
    distinct = len(classes)
    if mod.LEVEL == "model_checking" and "states" in counters:
        cov.setdefault("traces_validated_against_impl", counters.get("traces_validated_against_impl", counters.get("transitions", 0)))
    cov.update(
        {
            "evaluations": evals,
            "distinct_nontrivial": distinct,
            "rule": mod.RULE,
            "samples": samples[:6] or ["<none>"],
            "exhaustive": exhaustive,
            "tasks_total": ntasks_total,
            "tasks_done": done_tasks,
            "outcome_classes": dict(sorted(classes.items(), key=lambda kv: -kv[1])[:40]),
            "bounds": getattr(mod, "BOUNDS", {}).get(args.tier, ""),
            "known_findings_seen": {k: v[1] for k, v in known_hits.items()},
        }
    )
    if capped:
        cov["cap_hit"] = f"time cap {deadline}s hit after {done_tasks}/{ntasks_total} tasks; only those tasks are covered"
    write_evidence(mod, args.tier, seed, cov, wall, len(unknown))

    for name, (e, n, c) in sorted(known_hits.items()):
        print(f"KNOWN-FINDING: property={prop} {name}: {e['what']} ({n} cases this run, e.g. {json.dumps(c, default=repr)[:200]})")
    for path, c, msgs in reported:
        print(f"VIOLATION property={prop} replay={path}")
        print("  " + "; ".join(str(m) for m in msgs)[:600])
    if len(unknown) > len(reported):
        print(f"  (+{len(unknown) - len(reported)} further candidate cases not individually confirmed)")
    print(
        f"{prop} tier={args.tier} evals={evals} classes={distinct} tasks={done_tasks}/{ntasks_total} "
        f"exhaustive={exhaustive} known={sum(v[1] for v in known_hits.values())} violations={len(unknown)} wall={wall:.1f}s "
        + " ".join(f"{k}={v}" for k, v in sorted(counters.items()))
    )
    sys.exit(1 if unknown else 0)


if __name__ == "__main__":
    main()
