"""Validate evidence files against the schema (run with python3-vt, which has jsonschema)."""
import json, sys, glob, os
import jsonschema
schema = json.load(open("/root/.vp/EVIDENCE.schema.json"))
bad = 0
for p in sys.argv[1:] or sorted(glob.glob(os.path.join(os.path.dirname(__file__), "..", "evidence", "C*.json"))):
    try:
        jsonschema.validate(json.load(open(p)), schema)
        print("ok ", p)
    except Exception as e:
        bad += 1
        print("BAD", p, str(e)[:300])
sys.exit(1 if bad else 0)
